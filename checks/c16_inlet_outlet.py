"""C16 - inlets and outlets move each particle across exactly once.

E2: breadth-first search over move / update histories on real InletBase and
OutletBase objects (their IOEvaluate evaluators compiled once), against a
bookkeeping reference model on particle records.  See DESIGN.md C16.
"""
import itertools
import math

import numpy as np

from vlib.runner import Result, Violation
from vlib.pool import map_jobs, Crash

DX = 1.0
NZ = 3               # zone length in dx
PROPS = ['u', 'v', 'w', 'm', 'rho', 'p', 'h', 'uid', 'q3']
NORMALS = {
    '+x': (1.0, 0.0, 0.0), '-x': (-1.0, 0.0, 0.0), '+y': (0.0, 1.0, 0.0),
    'xy': (math.sqrt(0.5), math.sqrt(0.5), 0.0),
    'xyz': (1 / math.sqrt(3), 1 / math.sqrt(3), 1 / math.sqrt(3)),
    '+z': (0.0, 0.0, 1.0),
    'skew': (0.48, 0.6, 0.64),        # all three components different
}


class World(object):
    """Real arrays + InletBase/OutletBase, reusable across histories."""

    def __init__(self, flow, dim, props_to_copy, with_ghost):
        # with_ghost == 'by': no ghost inlet, but every array also holds a
        # ghost-tagged bystander (as a periodic / mirror domain or a parallel
        # run would leave there) that must survive all transfers untouched
        from vlib.build import reset_group_counter
        reset_group_counter()
        self.bystanders = with_ghost == 'by'
        with_ghost = with_ghost is True
        from compyle.config import get_config
        get_config().use_openmp = False
        from pysph.base.particle_array import ParticleArray
        from pysph.base.kernels import CubicSpline
        from pysph.sph.bc.inlet_outlet_manager import (
            InletInfo, OutletInfo, InletBase, OutletBase)
        self.flow = np.array(NORMALS[flow])      # direction of the flow
        self.dim = dim
        self.L = NZ * DX
        self.fl = 4 * DX                          # fluid region length
        self.props_to_copy = props_to_copy
        names = ['inlet', 'fluid', 'outlet'] + (['ghost_inlet'] if with_ghost
                                                else [])
        self.pas = {}
        for nm in names:
            pa = ParticleArray(name=nm)
            for p in ['x', 'y', 'z', 'disp'] + PROPS:
                if p == 'q3':
                    pa.add_property(p, stride=3)
                else:
                    pa.add_property(p)
            pa.add_property('ioid', type='int')
            self.pas[nm] = pa
        # fluid occupies s in (0, fl) along the flow; inlet s in (-L, 0);
        # outlet s in (fl, fl+L).  Interface normals point out of the fluid.
        ii = InletInfo('inlet', normal=list(-self.flow), refpoint=[0., 0., 0.],
                       has_ghost=with_ghost)
        ii.length = self.L
        ii.dx = DX
        oi = OutletInfo('outlet', normal=list(self.flow),
                        refpoint=list(self.fl * self.flow),
                        props_to_copy=props_to_copy)
        oi.length = self.L
        oi.dx = DX
        k = CubicSpline(dim=dim)
        self.inlet = InletBase(self.pas['inlet'], self.pas['fluid'], ii, k,
                               dim, active_stages=[1],
                               ghost_pa=self.pas.get('ghost_inlet'))
        self.outlet = OutletBase(self.pas['outlet'], self.pas['fluid'], oi, k,
                                 dim, active_stages=[1])

    # -- state <-> arrays ---------------------------------------------------
    def set_state(self, state):
        for nm, pa in self.pas.items():
            n = pa.get_number_of_particles()
            if n:
                pa.remove_particles(list(range(n)))
            recs = state.get(nm, [])
            if nm == 'ghost_inlet':
                # mirror of the inlet about the interface, same order
                recs = [dict(r, s=-r['s']) for r in state['inlet']]
            if not recs:
                continue
            p1 = self._perp()
            p2 = np.cross(self.flow, p1)
            pos = np.array([r['s'] * self.flow + r.get('off', 0.0) * p1 +
                            (0.15 * r['uid'] if self.dim == 3 else 0.0) * p2
                            for r in recs])
            kw = dict(x=pos[:, 0], y=pos[:, 1], z=pos[:, 2])
            for p in PROPS:
                if p == 'q3':
                    kw[p] = np.array([[r['uid'] * 10 + j for j in (1, 2, 3)]
                                      for r in recs]).ravel()
                elif p == 'uid':
                    kw[p] = np.array([r['uid'] for r in recs], dtype=float)
                else:
                    kw[p] = np.array([r['uid'] * 3 + 0.25 * (PROPS.index(p) +
                                                             1)
                                      for r in recs])
            pa.add_particles(**kw)
        if self.bystanders:
            for k, nm in enumerate(('inlet', 'fluid', 'outlet', 'fluid')):
                self.pas[nm].add_particles(**self._bystander(k))
                self.pas[nm].align_particles()

    def _bystander(self, k):
        # in the middle of its own zone, far away sideways
        # (k == 3: a second ghost of the fluid array, lying beyond the outlet
        # plane, as the periodic copy of a fluid particle may)
        s = (-0.5 * self.L, 0.5 * self.fl, self.fl + 0.5 * self.L,
             self.fl + 0.4 * self.L)[k]
        pos = s * self.flow + (7.0 + k) * self._perp()
        uid = 900 + k
        kw = dict(x=[pos[0]], y=[pos[1]], z=[pos[2]], tag=[2])
        for p in PROPS:
            kw[p] = list(value(uid, p)) if p == 'q3' else [value(uid, p)]
        return kw

    def bystanders_ok(self):
        if not self.bystanders:
            return None
        for k, nm in enumerate(('inlet', 'fluid', 'outlet', 'fluid')):
            pa = self.pas[nm]
            uid = pa.get('uid', only_real_particles=False)
            idx = [i for i in range(len(uid)) if uid[i] == 900 + k]
            want = self._bystander(k)
            nall = sum(1 for v in uid if v >= 900)
            if len(idx) != 1 or nall != (2 if nm == 'fluid' else 1):
                return '%s holds %d ghost bystanders, %d of them number %d' % (
                    nm, nall, len(idx), k)
            i = idx[0]
            for p, v in want.items():
                st = pa.stride.get(p, 1)
                got = pa.get(p, only_real_particles=False)[i * st:(i + 1) * st]
                if list(np.asarray(got, dtype=float)) != \
                        list(np.asarray(v, dtype=float)):
                    return 'ghost bystander of %s: %s is %r, was %r' % (
                        nm, p, list(got), v)
            nr = pa.num_real_particles
            tags = pa.get('tag', only_real_particles=False)
            if i < nr or any(t != 0 for t in tags[:nr]):
                return 'ghost bystander of %s inside the real range' % nm
        return None

    def _perp(self):
        f = self.flow
        p = np.array([-f[1], f[0], 0.0])
        if np.linalg.norm(p) < 1e-12:
            p = np.array([0.0, 1.0, 0.0])
        return p / np.linalg.norm(p)

    def read(self):
        out = {}
        for nm, pa in self.pas.items():
            n = pa.get_number_of_particles()
            g = lambda p: pa.get(p, only_real_particles=False)
            pos = np.column_stack([g('x'), g('y'), g('z')]) if n else \
                np.zeros((0, 3))
            recs = []
            for i in range(n):
                if self.bystanders and g('uid')[i] >= 900:
                    continue
                rec = dict(s=float(np.dot(pos[i], self.flow)))
                for p in PROPS:
                    if p == 'q3':
                        rec[p] = tuple(g(p)[3 * i:3 * i + 3].tolist())
                    else:
                        rec[p] = float(g(p)[i])
                recs.append(rec)
            out[nm] = recs
        return out

    def lengths_ok(self):
        for nm, pa in self.pas.items():
            n = pa.get_number_of_particles()
            tags = pa.get('tag', only_real_particles=False)
            nloc = int(np.sum(np.asarray(tags) == 0))
            if pa.get_number_of_particles(True) != nloc or \
                    any(t != 0 for t in tags[:nloc]):
                return ('%s reports %d real particles, %d carry the Local '
                        'tag (tags %r)' % (nm, pa.get_number_of_particles(
                            True), nloc, list(tags)))
            for p, a in pa.properties.items():
                if a.length != n * pa.stride.get(p, 1):
                    return '%s.%s has %d values for %d particles' % (
                        nm, p, a.length, n)
        return None


def value(uid, p):
    if p == 'uid':
        return float(uid)
    if p == 'q3':
        return tuple(float(uid * 10 + j) for j in (1, 2, 3))
    return uid * 3 + 0.25 * (PROPS.index(p) + 1)


def model_update(state, L, fl, props_to_copy, stage, next_uid):
    """Bookkeeping reference: returns (new state, entered, left, deleted)."""
    st = {k: [dict(r) for r in v] for k, v in state.items()}
    if stage != 1:
        return st, 0, 0, 0
    entered = left = deleted = 0
    # inlet: particles whose signed distance from the interface left the zone
    new_fluid = []
    for r in st['inlet']:
        disp = -r['s']                 # distance into the inlet zone
        if disp <= 1e-6:
            c = dict(r)
            c['copied'] = 'all'
            new_fluid.append(c)
            r['s'] = r['s'] - L        # recycled one zone length upstream
            entered += 1
    st['fluid'] = st['fluid'] + new_fluid
    keep = []
    for r in st['fluid']:
        disp = r['s'] - fl
        if disp > 1e-6:
            c = dict(r)
            c['copied'] = 'subset'
            st['outlet'].append(c)
            left += 1
        else:
            keep.append(r)
    st['fluid'] = keep
    keep = []
    n_before = len(state['outlet'])
    for i, r in enumerate(st['outlet']):
        # zone ids are evaluated once per update, before the transfer: a
        # particle that arrived in this update and is already past the far
        # end is deleted by the next update (the statement sets no deadline)
        if i < n_before and (r['s'] - fl) - L > 1e-6:
            deleted += 1
        else:
            keep.append(r)
    st['outlet'] = keep
    return st, entered, left, deleted


def expected_records(st, props_to_copy):
    out = {}
    for nm in ('inlet', 'fluid', 'outlet'):
        recs = []
        for r in st[nm]:
            rec = {'s': round(r['s'], 9)}
            for p in PROPS:
                if nm == 'outlet' and r.get('copied') == 'subset' and \
                        props_to_copy is not None and p not in props_to_copy:
                    rec[p] = (0.0, 0.0, 0.0) if p == 'q3' else 0.0
                else:
                    rec[p] = value(r['uid'], p)
            recs.append(rec)
        out[nm] = sorted(repr(sorted(x.items())) for x in recs)
    return out


def actual_records(world):
    out = {}
    for nm, recs in world.read().items():
        if nm == 'ghost_inlet':
            continue
        rr = []
        for r in recs:
            rec = dict(r)
            rec['s'] = round(rec['s'], 9)
            rr.append(rec)
        out[nm] = sorted(repr(sorted(x.items())) for x in rr)
    return out


MOVES = [('all', 1.0), ('all', 0.4), ('all', 2.4), ('inlet', 1.0),
         ('fluid', 1.0), ('fluid', -0.4), ('outlet', 1.0), ('first', 2.4),
         ('last', 1.0), ('all', -0.4), ('inlet', -1.0), ('all', -1.0),
         # more than a zone length in one update: a fluid particle passes
         # the outlet plane and the far end of the outlet zone at once
         ('last', 4.4), ('fluid', 3.6)]


def apply_move(st, mv):
    who, d = mv
    s2 = {k: [dict(r) for r in v] for k, v in st.items()}
    for nm in ('inlet', 'fluid', 'outlet'):
        for i, r in enumerate(s2[nm]):
            sel = who == 'all' or who == nm or \
                (who == 'first' and i == 0) or \
                (who == 'last' and i == len(s2[nm]) - 1)
            if sel:
                r['s'] = r['s'] + d * DX
                r.pop('copied', None) if False else None
    return s2


def near_plane(st, L, fl):
    for nm in ('inlet', 'fluid', 'outlet'):
        for r in st[nm]:
            for pl in (0.0, fl, fl + L, -L):
                if abs(r['s'] - pl) < 1e-4:
                    return True
    return False


def canon(st):
    return tuple((nm, tuple(sorted((round(r['s'], 6), r['uid'],
                                    r.get('copied'))
                                   for r in st[nm])))
                 for nm in ('inlet', 'fluid', 'outlet'))


def initial_states():
    out = []
    for ni, nf, no in ((3, 3, 2), (3, 0, 0), (1, 2, 0), (2, 4, 3)):
        st = {'inlet': [], 'fluid': [], 'outlet': []}
        uid = 1
        for i in range(ni):
            st['inlet'].append(dict(s=-(i + 0.5) * DX, uid=uid,
                                    off=0.1 * i))
            uid += 1
        for i in range(nf):
            st['fluid'].append(dict(s=(i + 0.5) * DX, uid=uid, off=-0.2 * i))
            uid += 1
        for i in range(no):
            st['outlet'].append(dict(s=4 * DX + (i + 0.5) * DX, uid=uid,
                                     off=0.3))
            uid += 1
        out.append(st)
    return out


CAP = [4000, 0]      # states per job, states dropped because of it


def _job(args):
    flow, dim, ptc, ghost, depth, init_idx = args
    CAP[0] = 4000 if depth <= 3 else 100000
    CAP[1] = 0
    world = World(flow, dim, ptc, ghost)
    L, fl = world.L, world.fl
    init = initial_states()[init_idx]
    seen = {canon(init)}
    frontier = [(init, [])]
    viol = {}
    nstates = 1
    ntrans = 0
    for d in range(depth):
        nxt = []
        for st, hist in frontier:
            for mv in MOVES:
                for stage in (1, 2):
                    moved = apply_move(st, mv)
                    if near_plane(moved, L, fl):
                        continue       # exactly on a plane: either way
                    exp, ent, lft, dele = model_update(moved, L, fl, ptc,
                                                       stage, 0)
                    # implementation
                    world.set_state(moved)
                    n_fluid0 = len(moved['fluid'])
                    try:
                        world.inlet.update(0.0, 0.1, stage)
                        world.outlet.update(0.0, 0.1, stage)
                        got = actual_records(world)
                        bad = world.lengths_ok() or world.bystanders_ok()
                    except Exception as e:  # noqa
                        viol.setdefault('io:exception:%s' % type(e).__name__,
                                        (repr(e), dict(hist=hist + [(mv,
                                                                     stage)])))
                        continue
                    ntrans += 1
                    want = expected_records(exp, ptc)
                    h2 = hist + [(mv, stage)]
                    if bad:
                        viol.setdefault('io:array-incoherent', (bad, dict(
                            hist=h2)))
                    nf = len(got['fluid'])
                    if nf != n_fluid0 + ent - lft:
                        viol.setdefault('io:fluid-count', (
                            'fluid has %d particles, expected %d + %d - %d'
                            % (nf, n_fluid0, ent, lft), dict(hist=h2)))
                    for nm in ('inlet', 'fluid', 'outlet'):
                        if got[nm] != want[nm]:
                            a = [x for x in got[nm] if x not in want[nm]][:2]
                            b = [x for x in want[nm] if x not in got[nm]][:2]
                            viol.setdefault('io:%s-records' % nm, (
                                '%s array differs from the bookkeeping '
                                'model: unexpected %s, missing %s' % (
                                    nm, a, b), dict(hist=h2)))
                    if stage == 2 and d + 1 >= depth:
                        continue
                    # drop the transient 'copied' marker for future steps:
                    # after a step, outlet particles keep their (possibly
                    # defaulted) values; encode by uid of defaulted props
                    k = canon(exp)
                    if k not in seen and len(seen) >= CAP[0]:
                        CAP[1] += 1
                    if k not in seen and len(seen) < CAP[0]:
                        seen.add(k)
                        nstates += 1
                        if ptc is None:
                            nxt.append((exp, h2))
        frontier = nxt
    out = {k: (w, dict(rep, flow=flow, dim=dim, ghost=ghost,
                       props_to_copy=ptc, init=init_idx))
           for k, (w, rep) in viol.items()}
    if CAP[1]:
        out['__dropped__'] = CAP[1]
    return nstates, ntrans, out


def run(ctx):
    depth = 4 if ctx.thorough else 2
    jobs = []
    flows = [('+x', 1), ('-x', 1), ('+y', 2), ('xy', 2), ('xyz', 3),
             ('+z', 3), ('skew', 3)]
    for flow, dim in flows:
        for ptc in (None, ['x', 'y', 'z', 'u', 'uid', 'q3', 'h']):
            for ghost in (False, True, 'by'):
                for ii in range(4):
                    if ptc is not None and ii not in (0, 3):
                        continue
                    if ghost and ii != 0:
                        continue
                    if ghost == 'by' and flow not in ('+x', '+y', 'skew'):
                        continue
                    jobs.append((flow, dim, ptc, ghost, depth, ii))
    scripts = manager_scripts(4 if ctx.thorough else 2)
    mjobs = []
    for fam in FAMILIES:
        k = max(1, len(scripts) // 6)
        for i in range(0, len(scripts), k):
            mjobs.append((fam, scripts[i:i + k]))
    alljobs = [('b', j) for j in jobs] + [('m', j) for j in mjobs]
    # jobs that need different generated evaluator modules first, so that a
    # cold code cache is filled by 16 compilers at once instead of by one
    # while the others wait for its lock
    first = {}
    for i, (kind, j) in enumerate(alljobs):
        mod = (j[0], j[3]) if kind == 'b' else ('m', j[0])
        first.setdefault(mod, i)
    order = sorted(range(len(alljobs)),
                   key=lambda i: (i not in first.values(), i))
    done = map_jobs(lambda j: _job(j[1]) if j[0] == 'b' else
                    _manager_job(j[1]), [alljobs[i] for i in order],
                    ctx.ncpu, job_timeout=3000)
    both = [None] * len(alljobs)
    for i, r in zip(order, done):
        both[i] = r
    res = both[:len(jobs)]
    viol = {}
    ns = nt = 0
    nms = nmt = 0
    dropped = 0
    for job, r in zip(mjobs, both[len(jobs):]):
        if isinstance(r, Crash):
            viol.setdefault('io:manager:crash:%s' % job[0], (
                r.reason, dict(family=job[0], script=job[1][0])))
            continue
        nms += r[0]
        nmt += r[1]
        for k2, x in r[2].items():
            viol.setdefault(k2, x)
    for job, r in zip(jobs, res):
        if isinstance(r, Crash):
            viol.setdefault('io:crash', (r.reason, dict(job=list(job[:4]))))
            continue
        a, b, v = r
        ns += a
        nt += b
        dropped += v.pop('__dropped__', 0)
        for k, x in v.items():
            viol.setdefault(k, x)
    vs = [Violation(k, '%s [%r]' % (w, rep), rep)
          for k, (w, rep) in sorted(viol.items())]
    ns += nms
    nt += nmt
    cov = dict(states=ns, transitions=nt, traces_validated_against_impl=nt,
               depth=depth, exhaustive=(dropped == 0),
               states_not_expanded_because_of_the_per_job_cap=dropped,
               manager_histories=nms,
               manager_updates=nmt, families=FAMILIES,
               samples=[dict(flow='+x', init=initial_states()[0],
                             moves=[list(m) for m in MOVES[:3]])],
               rule='BFS over histories of <=%d rounds; one round = one of %d '
                    'displacement patterns (all / one array / first / last '
                    'particle by -0.4, 0.4, 1, 2.4, 3.6, 4.4 dx, so several particles '
                    'cross in one step, cross then return, or skip a whole zone) '
                    'followed by inlet.update and outlet.update with stage '
                    'active or not; 4 initial populations x 7 flow '
                    'directions (1-3 D) x props_to_copy none/subset x '
                    'with/without ghost inlet / with a ghost-tagged bystander '
                    'particle in every array; states deduplicated on '
                    '(array, position, id) triples.  In addition, for each '
                    'of the five shipped families a 2-D channel with one '
                    'inlet and two outlets (right and top) is built through '
                    'the family\'s SimpleInletOutlet manager and every '
                    'history of <=%d displacements out of 6 (incl. a '
                    'diagonal one and one longer than a zone) is run '
                    'through the update objects returned by '
                    'get_inlet_outlet (the family\'s own Inlet / Outlet '
                    'classes) and compared with a bookkeeping model'
                    % (depth, len(MOVES), 4 if ctx.thorough else 2))
    assumptions = ['a particle exactly on an interface plane may go either '
                   'way: such states are not generated',
                   'the InletBase/OutletBase objects are driven directly '
                   '(InletInfo/OutletInfo lengths set as the manager would); '
                   'the five SimpleInletOutlet managers only add properties '
                   'and equations around them',
                   'histories deeper than the bound are not covered']
    return Result('model_checking', cov, assumptions, vs)


def replay(ctx, obj):
    """Re-executes the recorded history (moves + stage per round) on a fresh
    world and judges every round like the search does."""
    if 'family' in obj:
        pr = manager_case(obj['family'], [tuple(m) for m in obj['script']])
        return dict(violates=bool(pr), problems=pr[:3])
    flow, dim = obj['flow'], obj['dim']
    ptc = obj.get('props_to_copy')
    world = World(flow, dim, ptc, obj.get('ghost', False))
    L, fl = world.L, world.fl
    st = initial_states()[obj.get('init', 0)]
    problems = []
    for rnd, (mv, stage) in enumerate(obj['hist']):
        moved = apply_move(st, (mv[0], mv[1]))
        exp, ent, lft, dele = model_update(moved, L, fl, ptc, stage, 0)
        world.set_state(moved)
        n0 = len(moved['fluid'])
        world.inlet.update(0.0, 0.1, stage)
        world.outlet.update(0.0, 0.1, stage)
        got = actual_records(world)
        want = expected_records(exp, ptc)
        bad = world.lengths_ok()
        if bad:
            problems.append((rnd, 'array-incoherent', bad))
        if len(got['fluid']) != n0 + ent - lft:
            problems.append((rnd, 'fluid-count', '%d vs %d + %d - %d' % (
                len(got['fluid']), n0, ent, lft)))
        for nm in ('inlet', 'fluid', 'outlet'):
            if got[nm] != want[nm]:
                problems.append((rnd, nm + '-records',
                                 [x for x in got[nm] if x not in want[nm]][:2]))
        st = exp
    return dict(violates=bool(problems), problems=problems[:5])


# ---------------------------------------------------------------------------
# the five shipped families, driven through their manager
# ---------------------------------------------------------------------------
FAMILIES = ['donothing', 'mod_donothing', 'mirror', 'hybrid', 'characteristic']


def manager_case(family, script):
    """2-D channel: inlet at x<0 (flow +x), outlets at x>FL (normal +x) and
    at y>H (normal +y), built by the family's SimpleInletOutlet manager; the
    update objects come from get_inlet_outlet().  `script`: list of
    (dx, dy) displacements of all inlet and fluid particles (in units of DX),
    each followed by an update of every object.  Returns problems."""
    from vlib.build import reset_group_counter
    reset_group_counter()
    import importlib
    from compyle.config import get_config
    get_config().use_openmp = False
    from pysph.base.utils import get_particle_array
    from pysph.base.kernels import CubicSpline
    from pysph.sph.bc.inlet_outlet_manager import InletInfo, OutletInfo
    base = 'pysph.sph.bc.%s.' % family
    Manager = importlib.import_module(base + 'simple_inlet_outlet')\
        .SimpleInletOutlet
    Inlet = importlib.import_module(base + 'inlet').Inlet
    Outlet = importlib.import_module(base + 'outlet').Outlet
    NX, NY = 4, 3
    FL, H, L = NX * DX, NY * DX, NZ * DX
    uid = [0]

    def block(name, xs, ys):
        x, y = np.meshgrid(xs, ys, indexing='ij')
        x, y = x.ravel(), y.ravel()
        n = len(x)
        pa = get_particle_array(name=name, x=x, y=y, h=1.2 * DX, m=1.0,
                                rho=1.0, u=1.0)
        pa.add_property('uid')
        pa.uid[:] = np.arange(uid[0], uid[0] + n)
        uid[0] += n
        return pa
    cx = lambda n, x0: x0 + (np.arange(n) + 0.5) * DX
    arrays = dict(
        fluid=block('fluid', cx(NX, 0.0), cx(NY, 0.0)),
        inlet=block('inlet', cx(NZ, -L), cx(NY, 0.0)),
        outR=block('outR', cx(NZ, FL), cx(NY, 0.0)),
        outT=block('outT', cx(NX, 0.0), cx(NZ, H)))
    infos_in = [InletInfo('inlet', normal=[-1.0, 0.0, 0.0],
                          refpoint=[0.0, 0.0, 0.0], has_ghost=False,
                          update_cls=Inlet)]
    infos_out = [OutletInfo('outR', normal=[1.0, 0.0, 0.0],
                            refpoint=[FL, 0.0, 0.0], has_ghost=False,
                            update_cls=Outlet,
                            props_to_copy=None),
                 OutletInfo('outT', normal=[0.0, 1.0, 0.0],
                            refpoint=[0.0, H, 0.0], has_ghost=False,
                            update_cls=Outlet, props_to_copy=None)]
    man = Manager(['fluid'], inletinfo=infos_in, outletinfo=infos_out)
    man.update_dx(DX)
    man.active_stages = [1]
    man.setup_iom(dim=2, kernel=CubicSpline(dim=2))
    for pa in arrays.values():
        man.add_io_properties(pa)
        for p in ('uref',):
            if p not in pa.constants:
                pa.add_constant(p, 0.0)
    objs = man.get_inlet_outlet(arrays)
    probs = []
    # one update object per zone
    seen = []
    for o in objs:
        seen.append(getattr(o, 'inlet_pa', None) is not None and
                    o.inlet_pa.name or o.outlet_pa.name)
    if sorted(seen) != ['inlet', 'outR', 'outT']:
        probs.append(('manager:update-objects', 'get_inlet_outlet returned '
                      'update objects for %r, zones are inlet, outR, outT'
                      % (seen,)))
        return probs

    # model: uid -> (array, x, y)
    model = {}
    for nm, pa in arrays.items():
        for i in range(pa.get_number_of_particles()):
            model[int(pa.uid[i])] = [nm, float(pa.x[i]), float(pa.y[i])]
    next_uid = [uid[0]]
    n_fluid0 = arrays['fluid'].get_number_of_particles()
    entered = left = 0
    for rnd, (mx, my) in enumerate(script):
        for nm in ('inlet', 'fluid', 'outR', 'outT'):
            pa = arrays[nm]
            sx = mx if nm != 'outT' else 0.0
            sy = my if nm in ('fluid', 'outT') else 0.0
            pa.x[:] = pa.x + sx * DX
            pa.y[:] = pa.y + sy * DX
        for u, rec in list(model.items()):
            nm = rec[0]
            rec[1] += (mx if nm != 'outT' else 0.0) * DX
            rec[2] += (my if nm in ('fluid', 'outT') else 0.0) * DX
        for o in objs:
            o.update(0.0, 0.1, 1)
        # expected bookkeeping, in the order of the update objects (inlet,
        # then the outlets in the order given): each object evaluates its
        # zone ids once, before its own transfer; a copy that enters the
        # fluid already beyond an outlet plane (a move longer than the fluid
        # region) is handed on by the outlet update of the same round, and a
        # particle beyond both planes is taken by the first outlet
        for u, rec in list(model.items()):
            nm, x, y = rec
            if nm == 'inlet' and x > 1e-9:
                rec[1] = x - L
                model[-(u + 1) - 1000 * rnd] = ['fluid', x, y]
                entered += 1
        for zone, beyond, far in (
                ('outR', lambda r: r[1] > FL + 1e-9,
                 lambda r: r[1] > FL + L + 1e-9),
                ('outT', lambda r: r[2] > H + 1e-9,
                 lambda r: r[2] > H + L + 1e-9)):
            for u, rec in list(model.items()):
                if rec[0] == zone and far(rec):
                    del model[u]
                elif rec[0] == 'fluid' and beyond(rec):
                    rec[0] = zone
                    left += 1
        for nm in ('inlet', 'fluid', 'outR', 'outT'):
            pa = arrays[nm]
            got = sorted((round(float(a), 9), round(float(b), 9))
                         for a, b in zip(pa.x, pa.y))
            want = sorted((round(r[1], 9), round(r[2], 9))
                          for r in model.values() if r[0] == nm)
            if got != want:
                extra = [g for g in got if g not in want][:3]
                miss = [w for w in want if w not in got][:3]
                probs.append(('manager:%s-positions' % (
                    'fluid' if nm == 'fluid' else 'zone'),
                    'family %s round %d: array %s holds %d particles, model '
                    '%d; unexpected %r missing %r' % (
                        family, rnd, nm, len(got), len(want), extra, miss)))
                return probs
        nf = arrays['fluid'].get_number_of_particles()
        if nf != n_fluid0 + entered - left:
            probs.append(('manager:fluid-count', 'family %s round %d: %d '
                          'fluid particles, expected %d + %d - %d' % (
                              family, rnd, nf, n_fluid0, entered, left)))
            return probs
    return probs


MANAGER_MOVES = [(1.0, 0.0), (0.0, 1.0), (0.6, 0.0), (0.0, 0.6), (1.2, 0.6),
                 (3.6, 0.0)]


def manager_scripts(depth):
    import itertools
    out = []
    for d in range(1, depth + 1):
        out += [list(s) for s in itertools.product(MANAGER_MOVES, repeat=d)]
    return out


def _manager_job(args):
    family, scripts = args
    viol = {}
    n = 0
    for sc in scripts:
        # positions exactly on a plane may go either way: not generated
        try:
            pr = manager_case(family, sc)
        except Exception as e:  # noqa
            import traceback
            pr = [('manager:exception:%s' % type(e).__name__,
                   'family %s: %s' % (family, traceback.format_exc()[-400:]))]
        n += len(sc)
        for kind, what in pr[:1]:
            viol.setdefault('io:%s:%s' % (kind, family), (
                what, dict(family=family, script=[list(m) for m in sc])))
    return len(scripts), n, viol
