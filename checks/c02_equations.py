"""C02 - compiled equations compute what the Python equation source says.

E5: (a) every shipped Equation subclass and (b) a bounded grammar of
user-style equations are run through the real code generator + compiler and
through the reference interpreter on the same particle data and the same
neighbour lists; every property and constant must agree (bit for bit for
arithmetic-only code).  See DESIGN.md section 4, C02.
"""
import ast
import hashlib
import importlib.util
import inspect
import itertools
import math
import os
import textwrap

import numpy as np

from vlib.runner import Result, Violation
from vlib.pool import map_jobs, Crash
from vlib import eqtable as T

EXTRA = dict(x=0.0, y=0.0, z=0.0, xo=0.0, yo=0.0, zo=0.0, l0=0.1, l1=0.2,
             alphaav=1.0, T=1.0, r0=1000.0, flow_stress=1e6, A_min=0.1,
             h=0.1, S=1.5, Gamma=2.0, a1=1.0, a2=1.0, a3=1.0)
LIBM = {'pow', 'exp', 'sin', 'cos', 'tan', 'log', 'log10', 'atan', 'atan2',
        'acos', 'asin', 'sinh', 'cosh', 'tanh', 'erf', 'floor', 'ceil',
        'fmod'}
INT_NAMES_DEFAULT = {'tag': 'int', 'pid': 'int', 'gid': 'unsigned int'}


def uses_libm(eq):
    """True if any hook (or helper) calls a libm function or uses **."""
    srcs = []
    for h in T.HOOKS:
        m = getattr(eq, h, None)
        if m is not None:
            try:
                srcs.append(textwrap.dedent(inspect.getsource(m)))
            except Exception:  # noqa
                return True
    if hasattr(eq, '_get_helpers_'):
        for f in eq._get_helpers_():
            try:
                srcs.append(textwrap.dedent(inspect.getsource(f)))
            except Exception:  # noqa
                return True
    for s in srcs:
        try:
            tree = ast.parse(s)
        except SyntaxError:
            return True
        for node in ast.walk(tree):
            if isinstance(node, ast.Pow):
                return True
            if isinstance(node, ast.Call):
                nm = getattr(node.func, 'id', None) or getattr(node.func,
                                                               'attr', None)
                if nm in LIBM:
                    return True
    return False


def pval(array, prop, i, j=0):
    """Deterministic, distinct, non-round, positive value."""
    hsh = int(hashlib.md5(('%s|%s' % (array, prop)).encode())
              .hexdigest()[:6], 16)
    return 0.55 + ((hsh % 997) / 997.0) * 0.9 + 0.0137 * ((3 * i + 5 * j +
                                                            hsh) % 17)


def make_arrays(need, types, strides, ints_seen):
    """need: dict array name -> set of property names."""
    from pysph.base.particle_array import ParticleArray
    pos = {
        'd': [(0.0, 0.0), (0.31, 0.07), (0.12, 0.41), (2.9, 2.7)],
        's': [(0.17, 0.13), (0.43, 0.29), (0.05, 0.26), (0.36, 0.46),
              (3.3, 0.1)],
    }
    out = []
    for nm in ('d', 's'):
        pa = ParticleArray(name=nm)
        pts = pos[nm]
        n = len(pts)
        for p in sorted(need[nm] | {'x', 'y', 'z', 'h'}):
            if p in ('tag', 'pid', 'gid'):
                continue
            t = sorted(types.get(p, {'double'}))[0] if p in types else \
                'double'
            if p in ints_seen:
                t = 'int'
            s = max(strides.get(p, {1}))
            if p == 'x':
                data = np.array([q[0] for q in pts])
            elif p == 'y':
                data = np.array([q[1] for q in pts])
            elif p == 'z':
                data = np.zeros(n)
            elif p == 'h':
                data = np.array([0.21 + 0.015 * (i % 3) for i in range(n)])
            elif t in ('int', 'long', 'unsigned int'):
                data = np.array([(i + j) % 2 for i in range(n)
                                 for j in range(s)])
            else:
                data = np.array([pval(nm, p, i, j) for i in range(n)
                                 for j in range(s)])
            pa.add_property(p, type=t, stride=s, data=data)
        tags = np.array([0] * (n - 1) + [2], dtype=np.int32)
        pa.get('tag', only_real_particles=False)[:] = tags
        pa.align_particles()
        out.append(pa)
    return out


def snapshot(arrays):
    st = {}
    for pa in arrays:
        for p in sorted(pa.properties):
            st['%s.%s' % (pa.name, p)] = pa.get_carray(p).get_npy_array()\
                .copy()
        for c in sorted(pa.constants):
            st['%s.%s' % (pa.name, c)] = pa.get_carray(c).get_npy_array()\
                .copy()
    return st


def restore(arrays, st):
    for pa in arrays:
        n0 = len(st['%s.tag' % pa.name])
        if pa.get_number_of_particles() != n0:
            pa.resize(n0)
        for p in pa.properties:
            pa.get_carray(p).get_npy_array()[:] = st['%s.%s' % (pa.name, p)]
        pa.align_particles()
        for c in pa.constants:
            pa.get_carray(c).get_npy_array()[:] = st['%s.%s' % (pa.name, c)]


def int_args(eq):
    """d_/s_ names an equation uses as array indices (must be int typed)."""
    found = set()
    for h in T.ARRAY_HOOKS:
        m = getattr(eq, h, None)
        if m is None:
            continue
        try:
            tree = ast.parse(textwrap.dedent(inspect.getsource(m)))
        except Exception:  # noqa
            continue
        for node in ast.walk(tree):
            if isinstance(node, ast.Subscript):
                for sub in ast.walk(node.slice):
                    if isinstance(sub, ast.Subscript) and isinstance(
                            sub.value, ast.Name) and \
                            sub.value.id[:2] in ('d_', 's_'):
                        found.add(sub.value.id[2:])
    return found


def prepare(keys):
    """Instantiate the classes; returns (instances, not_covered)."""
    from pysph.sph.equation import Equation
    eqs = T.discover(Equation)
    inst = []
    notcov = []
    for key in keys:
        e, why = T.instantiate(eqs[key], 'd', ('s',), EXTRA)
        if e is None:
            notcov.append((key, why))
            continue
        inst.append((key, e))
    return inst, notcov


def build_pack(insts, arrays, results, init_state, holder):
    from pysph.sph.equation import Group, Equation

    groups = []
    for i, (key, e) in enumerate(insts):
        groups.append(Group(equations=[e], real=True))

        def boundary(i=i, key=key):
            results.append((key, snapshot(holder['arrays'])))
            restore(holder['arrays'], init_state)
        groups.append(Group(equations=[holder['nop'](dest='d',
                                                     sources=None)],
                            pre=boundary))
    return groups


NOP_SRC = '''from pysph.sph.equation import Equation


class VerifNop(Equation):
    def initialize(self, d_idx, d_h):
        d_h[d_idx] = d_h[d_idx]
'''


def nop_class():
    d = os.path.join(os.path.expanduser('~'), 'verif_gen')
    os.makedirs(d, exist_ok=True)
    path = os.path.join(d, 'c02_nop.py')
    if not os.path.exists(path):
        tmp = path + '.%d' % os.getpid()
        with open(tmp, 'w') as f:
            f.write(NOP_SRC)
        os.replace(tmp, path)
    spec = importlib.util.spec_from_file_location('c02_nop', path)
    mod = importlib.util.module_from_spec(spec)
    spec.loader.exec_module(mod)
    return mod.VerifNop


def run_pack(keys, kname='CubicSpline'):
    """Returns dict(results per key, notcov)."""
    from compyle.config import get_config
    get_config().use_openmp = False
    import pysph.base.kernels as K
    from pysph.base.nnps import LinkedListNNPS
    from pysph.sph.acceleration_eval import AccelerationEval
    from pysph.sph.sph_compiler import SPHCompiler
    from vlib.ref.sph_interp import Interp, Prop
    from vlib import propreg, build
    Prop.C_DIVISION = False
    types, strides = propreg.harvest(build.work_dir())
    kernel = getattr(K, kname)(dim=2)
    sides = {}
    notcov_all = []
    ok_keys = list(keys)
    for side in ('reference', 'compiled'):
        from vlib.build import reset_group_counter
        reset_group_counter()
        insts, notcov = prepare(ok_keys if side == 'compiled' else keys)
        if side == 'reference':
            notcov_all = notcov
        need = {'d': set(), 's': set()}
        ints = set()
        for key, e in prepare(keys)[0]:
            d, s, idd, iss = T.equation_needs(e)
            need['d'] |= d | idd | s | iss
            need['s'] |= s | iss | d | idd
            ints |= int_args(e)
        arrays = make_arrays(need, types, strides, ints)
        init_state = snapshot(arrays)
        results = []
        holder = dict(arrays=arrays, nop=nop_class())
        groups = build_pack(insts, arrays, results, init_state, holder)
        nn = LinkedListNNPS(dim=2, particles=arrays,
                            radius_scale=kernel.radius_scale)
        if side == 'compiled':
            if not insts:
                sides[side] = {}
                continue
            ae = AccelerationEval(arrays, groups, kernel)
            SPHCompiler(ae, None).compile()
            ae.set_nnps(nn)
            ae.compute(0.3, 0.07)
            sides[side] = dict((k, st) for k, st in results)
        else:
            # the bounds-checked reference runs first, every equation
            # separately: one that cannot run in pure Python (compiled-only
            # helpers, out-of-range index for the generic arrays) is listed
            # as not covered and kept out of the compiled pack
            res = {}
            err = {}
            for gi, (key, e) in enumerate(insts):
                sub = groups[2 * gi:2 * gi + 2]
                del results[:]
                restore(arrays, init_state)
                try:
                    ip = Interp(arrays, sub, kernel, nn)
                    ip.compute(0.3, 0.07)
                    res[key] = results[0][1]
                except Exception as ex:  # noqa
                    err[key] = '%s: %s' % (type(ex).__name__, str(ex)[:150])
            sides[side] = res
            sides['ref_errors'] = err
            ok_keys = [k for k, e in insts if k in res]
        sides['insts_' + side] = dict(insts)
    return sides, notcov_all


def compare_pack(sides):
    probs = []
    covered = []
    notcov = []
    for key, why in sides['ref_errors'].items():
        notcov.append((key, 'reference side: ' + why))
    for key, stc in sides['compiled'].items():
        if key not in sides['reference']:
            notcov.append((key, 'no reference result'))
            continue
        str_ = sides['reference'][key]
        eq = sides['insts_reference'][key]
        exact = not uses_libm(eq)
        bad = None
        for name in stc:
            a, b = stc[name], str_[name]
            if a.shape != b.shape:
                bad = (name, 'shape')
                break
            if exact:
                same = np.array_equal(a, b, equal_nan=True)
            else:
                with np.errstate(all='ignore'):
                    same = np.allclose(a, b, rtol=1e-12, atol=1e-300,
                                       equal_nan=True)
            if not same:
                idx = int(np.argmax(~np.isclose(a, b, rtol=0, atol=0,
                                                equal_nan=True)))
                bad = (name, 'compiled %r reference %r at %d' % (
                    a.ravel()[idx].item(), b.ravel()[idx].item(), idx))
                break
        covered.append((key, exact))
        if bad:
            probs.append((key, '%s: %s differs (%s)' % (
                key, bad[0], bad[1])))
    return probs, covered, notcov


SHIPPED_KERNELS = ['CubicSpline', 'Gaussian', 'WendlandQuinticC4',
                   'QuinticSpline', 'WendlandQuintic', 'SuperGaussian',
                   'WendlandQuinticC6']


def _shipped_job(arg):
    keys, kname = arg if isinstance(arg, tuple) else (arg, 'CubicSpline')
    try:
        sides, nc0 = run_pack(keys, kname)
    except SystemExit:
        return dict(compile_failed=keys)
    probs, covered, notcov = compare_pack(sides)
    probs = [(k, '[kernel %s] %s' % (kname, w)) for k, w in probs]
    return dict(probs=probs, covered=covered, notcov=notcov + nc0)


def pack_keys(thorough):
    from pysph.sph.equation import Equation
    eqs = T.discover(Equation)
    keys = list(eqs)
    packs = []
    cur = []
    names = set()
    for k in keys:
        nm = k.rsplit('.', 1)[1]
        if nm in names or len(cur) >= 20:
            packs.append(cur)
            cur = []
            names = set()
        cur.append(k)
        names.add(nm)
    if cur:
        packs.append(cur)
    return packs


# equations the pure-Python reference cannot mimic or whose agreement with
# the compiled code is outside the bit-equality class; decided on the
# unchanged tree, see DESIGN.md C02
EXCLUDED = {}


def _user_job(pack):
    from checks import c02_usergen as G
    try:
        return G.run_pack(pack)
    except SystemExit:
        return dict(compile_failed=True)


def _any_job(job):
    kind, arg = job
    return _shipped_job(arg) if kind == 'shipped' else _user_job(arg)


def run(ctx):
    from checks import c02_usergen as G
    packs = pack_keys(ctx.thorough)
    upacks = G.packs(ctx.thorough, ctx.seed)
    # the big symbol packs first (longest compile)
    # shipped equations: the kernels rotate with the seed (quick two,
    # thorough three, so one of them has libm calls)
    if ctx.thorough:
        kns = [SHIPPED_KERNELS[(ctx.seed + i) % len(SHIPPED_KERNELS)]
               for i in (0, 1, 2)]
    else:
        kns = [SHIPPED_KERNELS[(ctx.seed + i) % len(SHIPPED_KERNELS)]
               for i in (0, 1)]
    packs = [(p, kn) for kn in kns for p in packs]
    jobs = [('user', u) for u in upacks] + [('shipped', p) for p in packs]
    allres = map_jobs(_any_job, jobs, ctx.ncpu, job_timeout=3000)
    res = allres[len(upacks):]
    viol = {}
    covered = []
    notcov = []
    nuser = nuval = nucls = 0
    for up, r in zip(upacks, allres[:len(upacks)]):
        tag = '%s:%s:%dd' % (up['kind'], up['kernel'], up['dim'])
        if isinstance(r, Crash):
            viol.setdefault('equations:user:pack-crash:%s' % up['kind'],
                            (r.reason, dict(pack=up)))
            continue
        if r.get('compile_failed'):
            viol.setdefault('equations:user:compile-failed:%s' % up['kind'], (
                'generated module for a pack of user-style equations does '
                'not compile (%s)' % tag, dict(pack=up)))
            continue
        nuser += r['programs']
        nuval += r['values']
        nucls += r['classes']
        for name, kind, what in r['probs']:
            viol.setdefault('equations:user:%s:%s' % (kind, name.split(
                '(')[0]), (what, dict(pack=up, name=name)))
    for (pk, kn), r in zip(packs, res):
        if isinstance(r, Crash):
            for k in pk:
                notcov.append((k, 'pack crashed: %s' % r.reason))
            viol.setdefault('equations:pack-crash', (r.reason,
                                                     dict(keys=pk)))
            continue
        if 'compile_failed' in r:
            viol.setdefault('equations:compile-failed', (
                'generated module for a pack of shipped equations does not '
                'compile', dict(keys=pk)))
            continue
        covered += r['covered']
        notcov += r['notcov']
        for key, what in r['probs']:
            if key in EXCLUDED:
                continue
            viol.setdefault('equations:shipped:%s' % key.split('pysph.sph.')[
                -1], (what, dict(key=key, kernel=kn)))
    vs = [Violation(k, w, rep) for k, (w, rep) in sorted(viol.items())]
    cov = dict(programs=len(covered) + nuser,
               disagreements_checked=len(covered) + nuser,
               shipped_programs=len(covered), user_programs=nuser,
               user_classes=nucls, user_values_compared=nuval,
               user_packs=len(upacks),
               exact_class=sum(1 for k, e in covered if e),
               tolerance_class=sum(1 for k, e in covered if not e),
               not_covered=sorted(set((k, w) for k, w in notcov)),
               excluded=sorted(EXCLUDED.items()), exhaustive=True,
               samples=[dict(equation=covered[0][0] if covered else None)],
               rule='every shipped Equation subclass, instantiated from a '
                    'generic value table, evaluated by the generated and '
                    'compiled code and by the reference interpreter on two '
                    'arrays (3+1 and 4+1 particles incl. a ghost) carrying '
                    'distinct non-round values in every property; all '
                    'properties and constants compared: bit equality for '
                    'arithmetic-only methods, 1e-12 relative where libm or '
                    '** is used.  User-style grammar (checks/c02_usergen.py): '
                    'S = each of the 21 precomputed pair symbols (and a ring '
                    'of symbol pairs; thorough: all pairs) x every kernel x '
                    'dim 1-3 x 3 wirings, every per-pair value stored in its '
                    'own slot; B = every ordered pair of terminals (typed / '
                    'strided properties, constants, attributes, t, dt, XIJ, '
                    'literal) x {+,-,*,/} in each of 5 hooks; F = feature '
                    'templates (declared matrices/ints, loops, branches, '
                    'helpers, attributes changed after construction, typed '
                    'writes, reduce, libm, SPH_KERNEL in loop_all) and all '
                    'ordered 2-3 equation groups of three non-commuting '
                    'equations with/without sources')
    assumptions = ['classes the value table cannot instantiate, or whose '
                   'methods cannot run in pure Python (compiled-only '
                   'helpers, out-of-range index caught by the bounds-'
                   'checked reference), are listed under not_covered',
                   'compiled with OpenMP off; LinkedListNNPS; shipped '
                   'equations in 2-D with kernel(s) %s (rotating with the '
                   'seed)' % ', '.join(kns)]
    return Result('translation_validation', cov, assumptions, vs)


def replay(ctx, obj):
    if 'pack' in obj:
        r = _user_job(obj['pack'])
        bad = r.get('compile_failed') or any(
            n == obj.get('name') for n, k, w in r.get('probs', []))
        return dict(violates=bool(bad), problems=r.get('probs', [])[:5])
    r = _shipped_job(([obj['key']], obj.get('kernel', 'CubicSpline')))
    return dict(violates=bool(r.get('probs')), result={k: v for k, v in
                                                        r.items()})
