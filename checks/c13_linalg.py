"""C13 - the small dense linear-algebra helpers solve what they are given.

E4a: all n x n matrices over a small integer alphabet (n<=3), structured
families for n=4..6, all symmetric 3x3 integer matrices at three magnitudes
for the eigen-decomposition; Python and transpiled builds of the helpers.
See DESIGN.md section 4, C13.
"""
import itertools
import math
import os
from fractions import Fraction

import numpy as np

from vlib.runner import Result, Violation
from vlib.pool import map_jobs, Crash

ALPH = (-1.0, 0.0, 1.0, 2.0)
EPS = np.finfo(float).eps


def det_int(rows):
    n = len(rows)
    if n == 1:
        return rows[0][0]
    if n == 2:
        return rows[0][0] * rows[1][1] - rows[0][1] * rows[1][0]
    if n == 3:
        a = rows
        return (a[0][0] * (a[1][1] * a[2][2] - a[1][2] * a[2][1]) -
                a[0][1] * (a[1][0] * a[2][2] - a[1][2] * a[2][0]) +
                a[0][2] * (a[1][0] * a[2][1] - a[1][1] * a[2][0]))
    # Fraction elimination
    m = [[Fraction(x) for x in r] for r in rows]
    d = Fraction(1)
    for c in range(n):
        p = None
        for r in range(c, n):
            if m[r][c] != 0:
                p = r
                break
        if p is None:
            return 0
        if p != c:
            m[c], m[p] = m[p], m[c]
            d = -d
        d *= m[c][c]
        for r in range(c + 1, n):
            f = m[r][c] / m[c][c]
            for k in range(c, n):
                m[r][k] -= f * m[c][k]
    return d


RHS = [[1.0, -2.0, 3.0, 0.5, -1.5, 2.5],
       [0.0, 1.0, 0.0, -1.0, 2.0, 4.0],
       [3.0, 3.0, -1.0, 7.0, 0.25, -6.0]]


def solve_case(gj, aug_fn, A, n, nb, via_aug=False, nmax=None):
    """Run gj_solve on matrix A (list of rows, floats) with nb right-hand
    sides.  Returns (rc, x) with x as n x nb numpy array."""
    nt = n + nb
    b = [[RHS[j][i] for j in range(nb)] for i in range(n)]
    if via_aug:
        nmax = nmax or n
        Af = [0.0] * (nmax * nmax)
        for i in range(n):
            for j in range(n):
                Af[nmax * i + j] = A[i][j]
        # garbage outside the n x n block must be ignored
        for i in range(nmax):
            for j in range(nmax):
                if i >= n or j >= n:
                    Af[nmax * i + j] = 99.0
        bf = [b[i][j] for i in range(n) for j in range(nb)]
        m = aug_fn(Af, bf, n, nb, nmax)
    else:
        m = []
        for i in range(n):
            m.extend(A[i])
            m.extend(b[i])
    rc, res = gj(m, n, nb)
    x = np.array(res, dtype=float).reshape(n, nb)
    return rc, x, np.array(b, dtype=float)


def judge(A, n, nb, rc, x, b, singular):
    """Returns None or (key, what)."""
    An = np.array(A, dtype=float)
    if singular:
        return None                     # statement leaves singular input open
    if np.linalg.cond(An) > 1e10:
        return None                     # numerically singular: left open
    if rc != 0:
        return ('nonsingular-reported-singular',
                'gj_solve returned %r for non-singular A=%r' % (rc, A))
    if not np.all(np.isfinite(x)):
        return ('non-finite-solution', 'A=%r x=%r' % (A, x.tolist()))
    kappa = np.linalg.cond(An)
    r = An.dot(x) - b
    lim = 64 * n * kappa * EPS * max(np.linalg.norm(b), 1e-300)
    if np.linalg.norm(r) > lim:
        return ('residual', 'A=%r: |Ax-b|=%g > %g (cond %g), x=%r' % (
            A, np.linalg.norm(r), lim, kappa, x.tolist()))
    return None


# ---------------------------------------------------------------------------
# the two implementations under test: pure Python and transpiled
# ---------------------------------------------------------------------------
def py_impl():
    # every output buffer is handed over filled with -7.25: a declared
    # matrix in generated C is not initialised, a helper must write all of
    # its result
    from pysph.sph.wc import linalg as L

    def gj(m, n, nb):
        m = list(m)
        res = [-7.25] * (n * nb)
        rc = L.gj_solve(m, n, nb, res)
        return rc, res

    def aug(Af, bf, n, na, nmax):
        res = [-7.25] * ((nmax + na) * n)
        L.augmented_matrix(Af, bf, n, na, nmax, res)
        return res[:(n + na) * n]

    def mm(a, b, n):
        res = [-7.25] * (n * n)
        L.mat_mult(a, b, n, res)
        return res

    def mv(a, b, n):
        res = [-7.25] * n
        L.mat_vec_mult(a, b, n, res)
        return res

    def ident(n):
        a = [7.0] * (n * n)
        L.identity(a, n)
        return a

    def dot(a, b, n):
        return L.dot(a, b, n)
    return dict(gj=gj, aug=aug, mm=mm, mv=mv, ident=ident, dot=dot)


_CY = [None]


def cy_impl():
    """Transpile the helpers exactly the way PySPH does for equations and
    compile one small extension that exposes them."""
    if _CY[0] is not None:
        return _CY[0]
    from pysph.sph.wc import linalg as L
    from pysph.sph.acceleration_eval_cython_helper import get_helper_code
    from compyle.ext_module import ExtModule
    helpers = [L.identity, L.dot, L.mat_mult, L.mat_vec_mult,
               L.augmented_matrix, L.gj_solve]
    code = ['# cython: language_level=3', 'from libc.math cimport *',
            'import numpy as np'] + get_helper_code(helpers)
    code.append('''
def w_gj(double[:] m, long n, long nb, double[:] res):
    return gj_solve(&m[0], n, nb, &res[0])

def w_aug(double[:] A, double[:] b, long n, long na, long nmax, double[:] res):
    augmented_matrix(&A[0], &b[0], n, na, nmax, &res[0])

def w_mm(double[:] a, double[:] b, long n, double[:] res):
    mat_mult(&a[0], &b[0], n, &res[0])

def w_mv(double[:] a, double[:] b, long n, double[:] res):
    mat_vec_mult(&a[0], &b[0], n, &res[0])

def w_ident(double[:] a, long n):
    identity(&a[0], n)

def w_dot(double[:] a, double[:] b, long n):
    return dot(&a[0], &b[0], n)
''')
    src = '\n'.join(code)
    root = os.path.join(os.path.expanduser('~'), '.pysph', 'verif_c13')
    mod = ExtModule(src, root=root, verbose=False).load()

    def gj(m, n, nb):
        m = np.array(m, dtype=float)
        res = np.full(max(1, n * nb), -7.25)
        rc = mod.w_gj(m, n, nb, res)
        return rc, res[:n * nb].tolist()

    def aug(Af, bf, n, na, nmax):
        res = np.full((nmax + na) * n, -7.25)
        mod.w_aug(np.array(Af, dtype=float), np.array(bf, dtype=float), n,
                  na, nmax, res)
        return res[:(n + na) * n].tolist()

    def mm(a, b, n):
        res = np.full(n * n, -7.25)
        mod.w_mm(np.array(a, dtype=float), np.array(b, dtype=float), n, res)
        return res.tolist()

    def mv(a, b, n):
        res = np.full(n, -7.25)
        mod.w_mv(np.array(a, dtype=float), np.array(b, dtype=float), n, res)
        return res.tolist()

    def ident(n):
        a = np.full(n * n, 7.0)
        mod.w_ident(a, n)
        return a.tolist()

    def dot(a, b, n):
        return mod.w_dot(np.array(a, dtype=float), np.array(b, dtype=float), n)
    _CY[0] = dict(gj=gj, aug=aug, mm=mm, mv=mv, ident=ident, dot=dot)
    return _CY[0]


# ---------------------------------------------------------------------------
# enumeration
# ---------------------------------------------------------------------------
def small_matrices(n):
    for vals in itertools.product(ALPH, repeat=n * n):
        yield [list(vals[i * n:(i + 1) * n]) for i in range(n)]


# further complete sets (thorough; the binary 4x4 set also in the quick tier
# for the transpiled build): name -> (n, alphabet)
SETS = {'small': None, 'five3': (3, (-2, -1, 0, 1, 3)), 'bin4': (4, (0, 1)),
        'tern4': (4, (-1, 0, 1))}


def matrix_at(n, alph, idx):
    """The idx-th n x n matrix over alph (same order as itertools.product)."""
    k = len(alph)
    vals = []
    for _ in range(n * n):
        vals.append(alph[idx % k])
        idx //= k
    vals.reverse()
    return [vals[i * n:(i + 1) * n] for i in range(n)]


def family_matrices(thorough):
    """n = 4..6 structured families: list of (label, rows)."""
    out = []
    # 1 x 1 systems of any magnitude (no elimination step is involved, so
    # no absolute pivot threshold may interfere) and uniformly scaled small
    # systems (same conditioning as the unscaled matrix)
    for sc in (1e-300, 1e-15, 2.5e-13, 1e-8, 1.0, 1e8, 1e15, -3e-14):
        out.append(('scaled-1x1', [[sc]]))
    for sc in (1e-6, 1e6):
        out.append(('scaled', [[2.0 * sc, 1.0 * sc], [1.0 * sc, -1.0 * sc]]))
        out.append(('scaled', [[0.0, 1.0 * sc, 2.0 * sc],
                               [1.0 * sc, 0.0, -1.0 * sc],
                               [2.0 * sc, 1.0 * sc, 0.0]]))
    for tiny in (0.0, 1e-14):
        for small in (1e-13, -1e-9, 1e-6):
            out.append(('pivot-search', [[tiny, 2.0, 1.0], [1.0, 1.0, 0.0],
                                         [small, 1.0, 3.0]]))
            out.append(('pivot-search', [[3.0, 1.0, 2.0], [1.0, tiny, -1.0],
                                         [2.0, small, 1.0]]))
    for n in (4, 5, 6):
        # strictly diagonally dominant base
        base = [[(n + 2.0 if i == j else ((i + 2 * j + i * j) % 2) * 2 - 1.0)
                 for j in range(n)] for i in range(n)]
        perms = list(itertools.permutations(range(n)))
        if n >= 5 and not thorough:
            perms = perms[::max(1, len(perms) // 120)]
        elif n == 6:
            perms = perms[::3]
        for p in perms:
            out.append(('perm-dd', [base[i] for i in p]))
        pm = perms if n == 4 else perms[::max(1, len(perms) // 60)]
        for p in pm:
            for sc in (1.0, 1e3):
                P = [[(sc * (1 + i) if p[i] == j else 0.0) for j in range(n)]
                     for i in range(n)]
                out.append(('perm-diag', P))
        # zero / tiny pivot in every position, fixed by a row below
        for k in range(n - 1):
            for tiny in (0.0, 1e-14):
                M = [row[:] for row in base]
                M[k][k] = tiny
                out.append(('tiny-pivot', M))
        # pivot search: zero / tiny diagonal entry, large entries in the
        # rows just below, a tiny non-zero entry in a later row (and zeros
        # after it): only the largest entry of the column is a safe pivot
        for k in range(n - 2):
            for j in range(k + 2, n):
                for tiny in (0.0, 1e-14):
                    for small in (1e-13, -1e-9):
                        M = [row[:] for row in base]
                        M[k][k] = tiny
                        M[j][k] = small
                        for r in range(j + 1, n):
                            M[r][k] = 0.0
                        out.append(('pivot-search', M))
        # row scalings
        for k in range(n):
            for sc in (1e-3, 1e3):
                M = [row[:] for row in base]
                M[k] = [sc * v for v in M[k]]
                out.append(('row-scaled', M))
        # singular members (left open by the statement; must not crash)
        M = [row[:] for row in base]
        M[n - 1] = M[0][:]
        out.append(('singular-repeated-row', M))
        M = [row[:] for row in base]
        M[1] = [0.0] * n
        out.append(('singular-zero-row', M))
    return out


def _gj_job(args):
    kind, payload, impl_name = args
    impl = py_impl() if impl_name == 'py' else cy_impl()
    viol = {}
    n_eval = 0
    n_nonsing = 0
    if kind == 'small':
        n, start, stop = payload
        it = itertools.islice(small_matrices(n), start, stop)
        mats = [('small', A) for A in it]
    elif kind in SETS:
        n, alph = SETS[kind]
        start, stop, stride = payload
        mats = [('small', matrix_at(n, alph, i))
                for i in range(start, stop, stride)]
    else:
        mats = payload
    for label, A in mats:
        n = len(A)
        if label == 'small':
            d = det_int([[int(v) for v in r] for r in A])
        else:
            d = det_int([[Fraction(v) for v in r] for r in A])
        singular = (d == 0)
        if not singular:
            n_nonsing += 1
        for nb in (1, 2, 3):
            for via_aug in ((False, True) if nb == 1 or label != 'small'
                            else (False,)):
                try:
                    rc, x, b = solve_case(impl['gj'], impl['aug'], A, n, nb,
                                          via_aug, nmax=n + 1 if via_aug
                                          else None)
                    pr = judge(A, n, nb, rc, x, b, singular)
                except Exception as e:  # noqa
                    pr = ('exception:%s' % type(e).__name__,
                          'A=%r raised %r' % (A, e))
                n_eval += 1
                if pr is not None:
                    key = 'linalg:gj_solve[%s]:%s:n%d%s' % (
                        impl_name, pr[0], n,
                        ':zero-leading-pivot' if A[0][0] == 0 else '')
                    if key not in viol:
                        viol[key] = (pr[1], dict(A=A, nb=nb, via_aug=via_aug,
                                                 impl=impl_name))
    return n_eval, n_nonsing, viol


def helper_checks(impl, impl_name):
    """mat_mult, mat_vec_mult, identity, dot, augmented_matrix against their
    definitions on an integer lattice (exact in floating point)."""
    viol = {}
    n_eval = 0
    vals = [-2.0, -1.0, 0.0, 1.0, 3.0, 0.5]
    for n in (1, 2, 3, 4):
        mats = []
        for s in range(12):
            mats.append([vals[(i * 7 + j * 3 + s * 5 + (i * j) % 4) % len(vals)]
                         for i in range(n) for j in range(n)])
        for a in mats:
            for b in mats[:6]:
                got = impl['mm'](a, b, n)
                want = (np.array(a).reshape(n, n).dot(
                    np.array(b).reshape(n, n))).ravel().tolist()
                n_eval += 1
                if got != want:
                    viol.setdefault('linalg:mat_mult[%s]' % impl_name, (
                        'mat_mult n=%d a=%r b=%r got %r want %r' % (
                            n, a, b, got, want), dict(fn='mm', a=a, b=b, n=n)))
            for s in range(4):
                v = [vals[(i * 5 + s) % len(vals)] for i in range(n)]
                got = impl['mv'](a, v, n)
                want = np.array(a).reshape(n, n).dot(np.array(v)).tolist()
                n_eval += 1
                if got != want:
                    viol.setdefault('linalg:mat_vec_mult[%s]' % impl_name, (
                        'mat_vec_mult n=%d a=%r v=%r got %r want %r' % (
                            n, a, v, got, want), dict(fn='mv', a=a, b=v, n=n)))
                w = [vals[(i * 3 + s + 1) % len(vals)] for i in range(n)]
                got = impl['dot'](v, w, n)
                want = float(np.dot(v, w))
                n_eval += 1
                if got != want:
                    viol.setdefault('linalg:dot[%s]' % impl_name, (
                        'dot %r.%r got %r want %r' % (v, w, got, want),
                        dict(fn='dot', a=v, b=w, n=n)))
        got = impl['ident'](n)
        n_eval += 1
        if got != np.eye(n).ravel().tolist():
            viol.setdefault('linalg:identity[%s]' % impl_name, (
                'identity(%d) gave %r' % (n, got), dict(fn='ident', n=n)))
    for nmax in (1, 2, 3, 4):
        for n in range(1, nmax + 1):
            for na in (1, 2, 3):
                A = [float(10 * i + j + 1) for i in range(nmax)
                     for j in range(nmax)]
                b = [float(100 + na * i + j) for i in range(n)
                     for j in range(na)]
                got = impl['aug'](A, b, n, na, nmax)
                want = []
                for i in range(n):
                    want += [A[nmax * i + j] for j in range(n)]
                    want += [b[na * i + j] for j in range(na)]
                n_eval += 1
                if got != want:
                    viol.setdefault('linalg:augmented_matrix[%s]' % impl_name,
                                    ('augmented_matrix n=%d na=%d nmax=%d got '
                                     '%r want %r' % (n, na, nmax, got, want),
                                     dict(fn='aug', n=n, na=na, nmax=nmax)))
    return n_eval, viol


# ---------------------------------------------------------------------------
# eigen decomposition
# ---------------------------------------------------------------------------
def _eig_job(args):
    start, stop, scales = args
    from pysph.base.linalg3 import py_eigen_decompose_eispack, \
        py_transform_diag_inv
    vals = (-2, -1, 0, 1, 2)
    viol = {}
    n_eval = 0
    distinct = set()
    it = itertools.islice(itertools.product(vals, repeat=6), start, stop)
    for (a, b, c, d, e, f) in it:
        for sc in scales:
            A = np.array([[a, d, e], [d, b, f], [e, f, c]], dtype=float) * sc
            try:
                dd, V = py_eigen_decompose_eispack(A.copy())
            except Exception as ex:  # noqa
                viol.setdefault('linalg:eigen:exception', (
                    'A=%r raised %r' % (A.tolist(), ex),
                    dict(A=A.tolist())))
                continue
            n_eval += 1
            nA = max(np.abs(A).max(), 1e-300)
            klass = 'planar' if (e == 0 and f == 0) or (d == 0 and e == 0) \
                or (d == 0 and f == 0) else 'dense'
            if not (np.all(np.isfinite(dd)) and np.all(np.isfinite(V))):
                viol.setdefault('linalg:eigen:non-finite:' + klass, (
                    'A=%r d=%r' % (A.tolist(), dd.tolist()),
                    dict(A=A.tolist())))
                continue
            o = np.abs(V.T.dot(V) - np.eye(3)).max()
            r = np.abs(A.dot(V) - V.dot(np.diag(dd))).max() / nA
            if o > 1e-12:
                viol.setdefault('linalg:eigen:not-orthonormal:' + klass, (
                    'A=%r |VtV-I|=%g' % (A.tolist(), o), dict(A=A.tolist())))
            elif r > 1e-12:
                viol.setdefault('linalg:eigen:AV!=Vd:' + klass, (
                    'A=%r |AV-Vd|/|A|=%g d=%r' % (A.tolist(), r, dd.tolist()),
                    dict(A=A.tolist())))
            else:
                # transform_diag_inv(d, V) must rebuild A = V diag(d) V^T
                R = py_transform_diag_inv(dd, V)
                if np.abs(R - A).max() / nA > 1e-12:
                    viol.setdefault('linalg:transform_diag_inv:' + klass, (
                        'A=%r rebuilt %r' % (A.tolist(), R.tolist()),
                        dict(A=A.tolist())))
            distinct.add(tuple(np.round(np.sort(dd) / sc, 9)))
    return n_eval, len(distinct), viol


def run(ctx):
    # make sure the transpiled module is built once, in this process, before
    # workers fork (they then load the cached .so)
    cy_impl()
    jobs = []
    sizes = {1: 4, 2: 256, 3: 262144}
    for impl_name in ('py', 'cy'):
        for n, tot in sizes.items():
            step = 4096 if n == 3 else tot
            if n == 3 and impl_name == 'py' and not ctx.thorough:
                # quick: Python build on a deterministic half (rotating with
                # the seed), transpiled build on everything
                rng = [(s, min(tot, s + step)) for s in range(0, tot, step)]
                rng = rng[(ctx.seed % 2)::2]
            else:
                rng = [(s, min(tot, s + step)) for s in range(0, tot, step)]
            for (s, e) in rng:
                jobs.append(('small', (n, s, e), impl_name))
        extra = [('bin4', 1)] if impl_name == 'cy' or ctx.thorough else []
        if ctx.thorough:
            # all 5^9 3x3 matrices over {-2,-1,0,1,3}; every 7th (py: 23rd)
            # of the 3^16 4x4 matrices over {-1,0,1}
            extra += [('five3', 1), ('tern4', 7 if impl_name == 'cy' else 23)]
        for nm, stride in extra:
            n_, alph = SETS[nm]
            tot_ = len(alph) ** (n_ * n_)
            step_ = 8192 * stride
            for s_ in range(0, tot_, step_):
                jobs.append((nm, (s_ + (ctx.seed % stride), min(tot_, s_ + step_),
                                  stride), impl_name))
        fam = family_matrices(ctx.thorough)
        for i in range(0, len(fam), 200):
            jobs.append(('family', fam[i:i + 200], impl_name))
    res = map_jobs(_gj_job, jobs, ctx.ncpu)
    viol = {}
    n_eval = n_ns = 0
    for r in res:
        if isinstance(r, Crash):
            viol.setdefault('linalg:gj_solve:crash', (r.reason, dict()))
            continue
        a, b, v = r
        n_eval += a
        n_ns += b
        for k, x in v.items():
            viol.setdefault(k, x)
    for impl_name, impl in (('py', py_impl()), ('cy', cy_impl())):
        a, v = helper_checks(impl, impl_name)
        n_eval += a
        for k, x in v.items():
            viol.setdefault(k, x)
    scales = [1e-8, 1.0, 1e8]
    tot = 5 ** 6
    ej = [(s, min(tot, s + 1000), scales) for s in range(0, tot, 1000)]
    eres = map_jobs(_eig_job, ej, ctx.ncpu)
    n_eig = n_dist = 0
    for r in eres:
        if isinstance(r, Crash):
            viol.setdefault('linalg:eigen:crash', (r.reason, dict()))
            continue
        a, b, v = r
        n_eig += a
        n_dist += b
        for k, x in v.items():
            viol.setdefault(k, x)
    vs = [Violation(k, w, rep) for k, (w, rep) in sorted(viol.items())]
    cov = dict(evaluations=n_eval + n_eig, distinct_nontrivial=n_ns + n_dist,
               gj_and_helper_evaluations=n_eval, nonsingular_matrices=n_ns,
               eigen_evaluations=n_eig, exhaustive=True,
               samples=[dict(A=[[0.0, 1.0], [1.0, 0.0]], nb=1),
                        dict(sym=[[1, 2, 0], [2, -1, 0], [0, 0, 2]],
                             scale=1e8)],
               rule='gj_solve: all n x n matrices over {-1,0,1,2}, n<=3 '
                    '(4^(n*n)), 1-3 right-hand sides, directly and through '
                    'augmented_matrix with nmax>n; all 65 536 binary 4x4 '
                    'matrices (quick: transpiled build); thorough: all 5^9 '
                    '3x3 matrices over {-2,-1,0,1,3} and every 7th / 23rd of '
                    'the 3^16 4x4 matrices over {-1,0,1}; n=4..6: row permutations '
                    'of a diagonally dominant matrix, scaled permutation '
                    'matrices, zero/tiny pivots in every position, pivot-'
                    'search traps (tiny entry in a later row), row '
                    'scalings, singular members; each through the Python '
                    'source and through a transpiled+compiled build; eigen: '
                    'all symmetric 3x3 over {-2..2} x scale {1e-8,1,1e8}; '
                    'non-trivial = non-singular matrices + distinct spectra '
                    '(per chunk)')
    assumptions = ['singular input: the statement only requires that a '
                   'non-zero return implies singular, so the return value '
                   'for singular matrices is not judged',
                   'residual bound 64*n*cond(A)*eps*|b|',
                   'the transpiled build uses get_helper_code() exactly as '
                   'equations do']
    return Result('exploration', cov, assumptions, vs)


def replay(ctx, obj):
    if 'impl' in obj and 'A' in obj:
        impl = py_impl() if obj['impl'] == 'py' else cy_impl()
        A = obj['A']
        n = len(A)
        d = det_int([[Fraction(v) for v in r] for r in A])
        rc, x, b = solve_case(impl['gj'], impl['aug'], A, n, obj['nb'],
                              obj.get('via_aug', False),
                              nmax=n + 1 if obj.get('via_aug') else None)
        pr = judge(A, n, obj['nb'], rc, x, b, d == 0)
        return dict(violates=pr is not None, problem=pr, rc=rc, x=x.tolist())
    if 'A' in obj:
        from pysph.base.linalg3 import py_eigen_decompose_eispack
        A = np.array(obj['A'], dtype=float)
        dd, V = py_eigen_decompose_eispack(A.copy())
        r = np.abs(A.dot(V) - V.dot(np.diag(dd))).max()
        o = np.abs(V.T.dot(V) - np.eye(3)).max()
        bad = not (r <= 1e-12 * max(np.abs(A).max(), 1e-300) and o <= 1e-12)
        return dict(violates=bool(bad), d=dd.tolist(), V=V.tolist())
    return dict(violates=False, note='helper case: rerun the check')
