"""C03 - groups run in the documented order over the documented particles.

E5: a bounded grammar of group trees (deviation-bounded flag combinations x
all 128 hook subsets x wirings) is run through the real code generator +
compiler and through the reference interpreter (vlib/ref/sph_interp.py);
particle data and Python-callback event logs must be identical.
See DESIGN.md section 4, C03.
"""
import copy
import hashlib
import importlib.util
import itertools
import os

import numpy as np

from vlib.runner import Result, Violation
from vlib.pool import map_jobs, Crash

M = 1000003
HOOKS = ['py_initialize', 'initialize', 'initialize_pair', 'loop_all', 'loop',
         'post_loop', 'reduce']

HOOK_SRC = {
    'py_initialize': '''
    def py_initialize(self, dst, t, dt):
        tr = dst.get('tr', only_real_particles=False)
        if len(tr) > 0:
            tr[0] = (tr[0]*3 + self.c + 1) % 1000003
''',
    'initialize': '''
    def initialize(self, d_idx, d_tr):
        d_tr[d_idx] = (d_tr[d_idx]*self.p + self.c + 2) % 1000003
''',
    'initialize_pair': '''
    def initialize_pair(self, d_idx, d_tr, s_sv):
        d_tr[d_idx] = (d_tr[d_idx]*5 + s_sv[0] + self.c + 3) % 1000003
''',
    'loop_all': '''
    def loop_all(self, d_idx, d_tr, s_sv, NBRS, N_NBRS):
        i = declare('int')
        s_idx = declare('long')
        acc = declare('long')
        acc = d_tr[d_idx]
        for i in range(N_NBRS):
            s_idx = NBRS[i]
            acc = (acc*7 + s_sv[s_idx] + self.c) % 1000003
        d_tr[d_idx] = acc
''',
    'loop': '''
    def loop(self, d_idx, s_idx, d_tr, s_sv):
        d_tr[d_idx] = (d_tr[d_idx]*self.p + s_sv[s_idx] + self.c + 4) % 1000003
''',
    'post_loop': '''
    def post_loop(self, d_idx, d_tr, d_x, d_h):
        d_tr[d_idx] = (d_tr[d_idx]*11 + self.c + 5) % 1000003
        d_x[d_idx] += self.move
        d_h[d_idx] = d_h[d_idx]*self.hgrow
''',
    'reduce': '''
    def reduce(self, dst, t, dt):
        self.calls += 1
        dst.total[0] = (dst.total[0]*13 + self.calls + self.c) % 1000003

    def converged(self):
        if self.calls >= self.nconv:
            return 1.0
        return -1.0
''',
}


def module_source():
    lines = ['from pysph.sph.equation import Equation',
             'from compyle.api import declare', '', '']
    for mask in range(128):
        hooks = [h for b, h in enumerate(HOOKS) if mask & (1 << b)]
        lines.append('class Tr%03d(Equation):' % mask)
        lines.append('    def __init__(self, dest, sources, p=3, c=1, '
                     'nconv=0, move=0.0, hgrow=1.0):')
        lines.append('        self.p = p')
        lines.append('        self.c = c')
        lines.append('        self.nconv = nconv')
        lines.append('        self.move = move')
        lines.append('        self.hgrow = hgrow')
        lines.append('        self.calls = 0')
        lines.append('        super(Tr%03d, self).__init__(dest, sources)'
                     % mask)
        for h in hooks:
            lines.append(HOOK_SRC[h].rstrip('\n'))
        if 'reduce' not in hooks:
            # iteration needs a convergence rule even without reduce: count
            # initialize calls of particle 0 is not possible -> converge
            pass
        lines.append('')
        lines.append('')
    # equations without sources: no initialize_pair / loop_all, and a loop
    # that is called once per destination particle without any neighbour
    nosrc_loop = '''
    def loop(self, d_idx, d_tr):
        d_tr[d_idx] = (d_tr[d_idx]*self.p + self.c + 6) % 1000003
'''
    for mask in range(128):
        if mask & 0b0001100:
            continue
        hooks = [h for b, h in enumerate(HOOKS) if mask & (1 << b)]
        lines.append('class TrN%03d(Equation):' % mask)
        lines.append('    def __init__(self, dest, sources, p=3, c=1, '
                     'nconv=0, move=0.0, hgrow=1.0):')
        lines.append('        self.p = p')
        lines.append('        self.c = c')
        lines.append('        self.nconv = nconv')
        lines.append('        self.move = move')
        lines.append('        self.hgrow = hgrow')
        lines.append('        self.calls = 0')
        lines.append('        super(TrN%03d, self).__init__(dest, sources)'
                     % mask)
        for h in hooks:
            lines.append((nosrc_loop if h == 'loop' else
                          HOOK_SRC[h]).rstrip('\n'))
        lines.append('')
        lines.append('')
    # user equations derived from other user equations: every hook and the
    # convergence rule are inherited, none is defined in the class itself
    for mask in range(128):
        lines.append('class TrD%03d(Tr%03d):' % (mask, mask))
        lines.append('    pass')
        lines.append('')
        lines.append('')
    # an equation that reads the trace property of its sources: what it
    # sees depends on which destinations of the group were processed before
    lines.append('class TrX(Equation):')
    lines.append('    def __init__(self, dest, sources, p=3, c=1, nconv=0, '
                 'move=0.0, hgrow=1.0):')
    lines.append('        self.p = p')
    lines.append('        self.c = c')
    lines.append('        super(TrX, self).__init__(dest, sources)')
    lines.append('    def initialize(self, d_idx, d_tr):')
    lines.append('        d_tr[d_idx] = (d_tr[d_idx]*self.p + self.c + 2) '
                 '% 1000003')
    lines.append('    def loop(self, d_idx, s_idx, d_tr, s_tr):')
    lines.append('        d_tr[d_idx] = (d_tr[d_idx]*self.p + s_tr[s_idx] + '
                 'self.c + 4) % 1000003')
    lines.append('')
    lines.append('')
    lines.append('class Nop(Equation):')
    lines.append('    def initialize(self, d_idx, d_nopv):')
    lines.append('        d_nopv[d_idx] = 0.0')
    lines.append('')
    return '\n'.join(lines)


_MOD = [None]


def trace_module():
    if _MOD[0] is None:
        src = module_source()
        d = os.path.join(os.path.expanduser('~'), 'verif_gen')
        os.makedirs(d, exist_ok=True)
        name = 'c03_trace_%s' % hashlib.md5(src.encode()).hexdigest()[:10]
        path = os.path.join(d, name + '.py')
        if not os.path.exists(path):
            tmp = path + '.%d' % os.getpid()
            with open(tmp, 'w') as f:
                f.write(src)
            os.replace(tmp, path)
        spec = importlib.util.spec_from_file_location(name, path)
        mod = importlib.util.module_from_spec(spec)
        import sys
        sys.modules[name] = mod
        spec.loader.exec_module(mod)
        _MOD[0] = mod
    return _MOD[0]


# ---------------------------------------------------------------------------
# particle data
# ---------------------------------------------------------------------------
def make_arrays(variant=0):
    """variant 1: the same particles with other tags - array a has one
    real particle fewer, array b one more (used for the second evaluation of
    every program: the number of real particles is read when a group runs,
    not when the evaluator is built)."""
    from pysph.base.particle_array import ParticleArray
    out = []
    layout = [('a', 4, 2, 0.0), ('b', 3, 1, 0.15), ('c', 2, 0, 0.3)]
    if variant == 1:
        layout = [('a', 3, 3, 0.0), ('b', 4, 0, 0.15), ('c', 2, 0, 0.3)]
    uid = 1
    for name, nreal, ng, off in layout:
        n = nreal + ng
        pa = ParticleArray(name=name)
        x = off + 0.35 * np.arange(n)
        pa.add_property('x', data=x)
        pa.add_property('y', data=0.05 * np.arange(n))
        pa.add_property('z', data=np.zeros(n))
        pa.add_property('h', data=0.3 + 0.05 * (np.arange(n) % 2))
        pa.add_property('tr', type='long',
                        data=(uid + np.arange(n)).astype(np.int64))
        pa.add_property('sv', type='long',
                        data=(17 * (uid + np.arange(n)) % 101 + 1)
                        .astype(np.int64))
        pa.add_property('nopv')
        tags = np.array([0] * nreal + [2] * ng, dtype=np.int32)
        pa.get('tag', only_real_particles=False)[:] = tags
        pa.align_particles()
        pa.add_constant('total', [float(uid)])
        pa.add_constant('n0', [1.0])
        pa.add_constant('n1', [3.0])
        uid += n
        out.append(pa)
    return out


def state_of(arrays):
    st = {}
    for pa in arrays:
        for p in ('tr', 'x', 'tag'):
            st['%s.%s' % (pa.name, p)] = pa.get(
                p, only_real_particles=False).tolist()
        st['%s.total' % pa.name] = pa.get_carray('total').get_npy_array()\
            .tolist()
        st['%s.nreal' % pa.name] = int(pa.num_real_particles)
    return st


INIT = [None, None]
EVAL = [0]       # which evaluation of the pack is running (0 or 1)


def reset(arrays):
    v = EVAL[0]
    if INIT[v] is None:
        INIT[v] = make_arrays(v)
    for pa, ref in zip(arrays, INIT[v]):
        n = pa.get_number_of_particles()
        m = ref.get_number_of_particles()
        if n != m:
            raise RuntimeError('particle count changed')
        for p in ref.properties:
            pa.get(p, only_real_particles=False)[:] = ref.get(
                p, only_real_particles=False)
        pa.align_particles()
        pa.get_carray('total').get_npy_array()[:] = \
            ref.get_carray('total').get_npy_array()


# ---------------------------------------------------------------------------
# program specifications (JSON-able) -> Group objects
# ---------------------------------------------------------------------------
def eq_spec(mask, dest='a', sources=('a', 'b'), p=3, c=1, nconv=0, move=0.0,
            derived=False, hgrow=1.0):
    return dict(mask=mask, dest=dest, sources=list(sources) if sources
                else None, p=p, c=c, nconv=nconv, move=move, derived=derived,
                hgrow=hgrow)


def group_spec(eqs=None, subgroups=None, **kw):
    g = dict(eqs=eqs or [], subgroups=subgroups or [], real=True,
             start_idx=0, stop_idx=None, iterate=False, min_iterations=0,
             max_iterations=1, condition=None, pre=False, post=False,
             update_nnps=False, name=None)
    g.update(kw)
    return g


def build_group(spec, log, tagp):
    from pysph.sph.equation import Group
    mod = trace_module()

    def cb(kind, tag):
        def f(*a):
            log.append((kind, tag) + tuple(round(float(x), 12) for x in a))
        return f
    cond = None
    if spec['condition'] == 'always':
        def cond(t, dt, tag=tagp):
            log.append(('condition', tag, t, dt))
            return True
    elif spec['condition'] == 'never':
        def cond(t, dt, tag=tagp):
            log.append(('condition', tag, t, dt))
            return False
    elif spec['condition'] == 't>0.5':
        def cond(t, dt, tag=tagp):
            log.append(('condition', tag, t, dt))
            return t > 0.5
    if spec['subgroups']:
        members = [build_group(s, log, '%s.%d' % (tagp, i))
                   for i, s in enumerate(spec['subgroups'])]
    else:
        members = []
        for e in spec['eqs']:
            if e['sources'] is None:
                cls = getattr(mod, 'TrN%03d' % (e['mask'] & ~0b0001100))
            elif e.get('cross'):
                cls = mod.TrX
            elif e.get('derived'):
                cls = getattr(mod, 'TrD%03d' % e['mask'])
            else:
                cls = getattr(mod, 'Tr%03d' % e['mask'])
            members.append(cls(dest=e['dest'], sources=e['sources'],
                               p=e['p'], c=e['c'], nconv=e['nconv'],
                               move=e['move'],
                               hgrow=e.get('hgrow', 1.0)))
    return Group(equations=members, real=spec['real'],
                 update_nnps=spec['update_nnps'], iterate=spec['iterate'],
                 max_iterations=spec['max_iterations'],
                 min_iterations=spec['min_iterations'],
                 pre=cb('pre', tagp) if spec['pre'] else None,
                 post=cb('post', tagp) if spec['post'] else None,
                 condition=cond, start_idx=spec['start_idx'],
                 stop_idx=spec['stop_idx'], name=spec.get('name'))


def build_pack(programs, log, arrays, results):
    """One evaluator for many programs: each program's groups are followed
    by a boundary group whose `pre` snapshots the arrays and resets them."""
    from pysph.sph.equation import Group
    mod = trace_module()
    groups = []
    for pi, prog in enumerate(programs):
        for gi, gs in enumerate(prog):
            groups.append(build_group(gs, log, 'P%d.G%d' % (pi, gi)))

        def boundary(pi=pi):
            results.append((pi, state_of(arrays), list(log)))
            del log[:]
            reset(arrays)
        groups.append(Group(equations=[mod.Nop(dest='a', sources=None)],
                            pre=boundary))
    return groups


# ---------------------------------------------------------------------------
# enumeration of programs
# ---------------------------------------------------------------------------
DEVIATIONS = {
    'real': [False],
    'range': [(1, None), (0, 2), (1, 3), ('n0', 'n1'), (0, 0), (2, 2)],
    'iterate': [(0, 1), (0, 3), (2, 3), (3, 3), (2, 5)],
    'condition': ['always', 'never', 't>0.5'],
    'pre': [True], 'post': [True], 'update_nnps': [True],
}
FULL = 127


def apply_dev(g, name, val):
    g = copy.deepcopy(g)
    if name == 'range':
        g['start_idx'], g['stop_idx'] = val
    elif name == 'iterate':
        g['iterate'] = True
        g['min_iterations'], g['max_iterations'] = val
    else:
        g[name] = val
    return g


def programs(thorough, seed):
    progs = []
    # (1) all 128 hook subsets in a single default group, two wirings
    for mask in range(128):
        progs.append([group_spec([eq_spec(mask, 'a', ('a', 'b'), p=3,
                                          c=mask % 7)])])
    for mask in range(0, 128, 1 if thorough else 3):
        progs.append([group_spec([eq_spec(mask, 'b', ('a',), p=5, c=2),
                                  eq_spec(FULL, 'a', ('b', 'c'), p=3, c=1)])])
    # (1c) destinations are processed in order of first appearance: the
    #      second destination reads what the first one just wrote
    for d1, d2 in itertools.permutations(('a', 'b', 'c'), 2):
        x = eq_spec(0, d2, (d1,), p=5, c=2)
        x['cross'] = True
        y = eq_spec(0, d1, (d2,), p=7, c=3)
        y['cross'] = True
        progs.append([group_spec([eq_spec(FULL, d1, (d2,), p=3, c=1), x])])
        progs.append([group_spec([y, x])])
        progs.append([group_spec(subgroups=[group_spec([y, x])]), ])
    # (1d) several instances of one equation class on one destination: every
    #      instance gets every hook (py_initialize and reduce included)
    for mask in (FULL, 0b1000001, 0b1100011):
        progs.append([group_spec([
            eq_spec(mask, 'a', ('a', 'b'), p=3, c=1),
            eq_spec(mask, 'a', ('b',), p=5, c=2),
            eq_spec(mask, 'b', ('a',), p=7, c=3),
            eq_spec(mask, 'a', ('a', 'c'), p=11, c=4)])])
    # (1b) the same with classes that inherit all their hooks
    for mask in range(0, 128, 1 if thorough else 5):
        progs.append([group_spec([eq_spec(mask, 'a', ('a', 'b'), p=3,
                                          c=mask % 7, derived=True)])])
    # (2) flag deviations (<=1 quick, <=2 thorough) of a rich default group,
    #     followed by a probe group whose result depends on neighbours
    base = group_spec([eq_spec(FULL, 'a', ('a', 'b'), p=3, c=1, move=0.4,
                               hgrow=1.75),
                       eq_spec(0b1010110, 'b', ('a',), p=5, c=2),
                       eq_spec(0b0110011, 'a', None, p=7, c=3)])
    probe = group_spec([eq_spec(0b0011000, 'a', ('a', 'b'), p=3, c=5),
                        eq_spec(0b0011000, 'c', ('a',), p=3, c=6)])
    devs = [(n, v) for n, vs in DEVIATIONS.items() for v in vs]
    progs.append([base, probe])
    for d in devs:
        for nconv in ((1, 2, 4, 99) if d[0] == 'iterate' else (0,)):
            g = apply_dev(base, *d)
            for e in g['eqs']:
                e['nconv'] = nconv
            progs.append([g, probe])
            if d[0] == 'iterate' and nconv in (2, 4):
                # convergence rule inherited from a parent equation class
                g2 = copy.deepcopy(g)
                for e in g2['eqs']:
                    if e['sources'] is not None:
                        e['derived'] = True
                progs.append([g2, probe])
    # pairs of deviations: all of them (thorough) / one residue class mod 4
    # chosen by the seed (quick)
    for pi, (d1, d2) in enumerate(itertools.combinations(devs, 2)):
        if not thorough and pi % 4 != seed % 4:
            continue
        if True:
            if d1[0] == d2[0]:
                continue
            g = apply_dev(apply_dev(base, *d1), *d2)
            for e in g['eqs']:
                e['nconv'] = 2
            progs.append([g, probe])
    # (3) two/three default groups over all wirings of <=3 arrays
    names = ['a', 'b', 'c']
    wir = []
    for dest in names:
        for k in (0, 1, 2):
            for srcs in itertools.combinations(names, k):
                wir.append((dest, srcs if srcs else None))
    for i, (w1, w2) in enumerate(itertools.product(wir, wir)):
        if not thorough and i % 5 != seed % 5:
            continue
        progs.append([group_spec([eq_spec(FULL, w1[0], w1[1], p=3, c=1),
                                  eq_spec(0b0110110, w2[0], w2[1], p=5, c=2)]),
                      group_spec([eq_spec(0b0010011, w2[0], w1[1], p=7,
                                          c=3)])])
    # (5) context: a deviated group between two plain groups that use the
    #     same arrays - code generated for a group must not depend on what
    #     the previous group (which may be skipped or repeated at run time)
    #     left behind
    def plain(dest, c):
        other = 'b' if dest == 'a' else 'a'
        return group_spec([eq_spec(FULL, dest, (dest, other), p=3, c=c)])
    for d in devs:
        if d[0] in ('pre', 'post'):
            continue
        for pre_dest in ('a', 'b'):
            for dests in (('a',), ('a', 'b'), ('b', 'a')):
                g = group_spec([eq_spec(FULL, dd, ('a', 'b'), p=5, c=2 + i)
                                for i, dd in enumerate(dests)])
                g = apply_dev(g, *d)
                for e in g['eqs']:
                    e['nconv'] = 2
                progs.append([plain(pre_dest, 1), g, plain('a', 4),
                              plain('b', 6)])
    # (6) explicit group names are profiling labels only: groups and
    #     sub-groups that share a name keep their own condition / pre / post
    for i, (da, db) in enumerate(itertools.product(
            [None] + devs, [('condition', 'never'), ('condition', 'always'),
                            ('pre', True), ('post', True),
                            ('condition', 't>0.5')])):
        if da and da[0] in ('iterate', 'range', 'real', 'update_nnps'):
            continue
        ga = apply_dev(plain('a', 1), *da) if da else plain('a', 1)
        gb = apply_dev(plain('b', 2), *db)
        ga['name'] = gb['name'] = 'shared'
        progs.append([ga, gb, plain('a', 4)])
        progs.append([gb, ga, plain('b', 4)])
        sa, sb = copy.deepcopy(ga), copy.deepcopy(gb)
        sa['name'] = sb['name'] = 'sub'
        progs.append([group_spec(subgroups=[sa, sb], name='sub',
                                 pre=True, post=True), probe])
    # (4) sub-groups with their own condition / pre / post / real / range
    sub1 = group_spec([eq_spec(FULL, 'a', ('a', 'b'), p=3, c=1, move=0.3,
                               hgrow=1.75)])
    sub2 = group_spec([eq_spec(0b1011010, 'b', ('a', 'c'), p=5, c=2)])
    for d1 in [None] + devs:
        for d2 in ([None] + devs if thorough else [None, devs[seed %
                                                               len(devs)]]):
            if (d1 and d1[0] == 'iterate') or (d2 and d2[0] == 'iterate'):
                continue        # iteration is a property of top level groups
            s1 = apply_dev(sub1, *d1) if d1 else sub1
            s2 = apply_dev(sub2, *d2) if d2 else sub2
            for outer in (dict(), dict(pre=True, post=True),
                          dict(condition='t>0.5'), dict(update_nnps=True),
                          dict(iterate=True, min_iterations=2,
                               max_iterations=3),
                          dict(condition='t>0.5', pre=True, post=True),
                          dict(condition='never', post=True,
                               update_nnps=True),
                          dict(iterate=True, min_iterations=2,
                               max_iterations=3, pre=True, post=True,
                               update_nnps=True)):
                parent = group_spec(subgroups=[s1, s2], **outer)
                progs.append([parent, probe])
    return progs


# ---------------------------------------------------------------------------
# execution of one pack on both sides
# ---------------------------------------------------------------------------
def run_pack(progs, times):
    from compyle.config import get_config
    get_config().use_openmp = False
    from pysph.base.kernels import CubicSpline
    from pysph.base.nnps import LinkedListNNPS
    from pysph.sph.acceleration_eval import AccelerationEval
    from pysph.sph.sph_compiler import SPHCompiler
    from vlib.ref.sph_interp import Interp
    kernel = CubicSpline(dim=2)
    out = {}
    for side in ('compiled', 'reference'):
        arrays = make_arrays()
        from vlib.build import reset_group_counter
        reset_group_counter()
        log = []
        results = []
        groups = build_pack(progs, log, arrays, results)
        nn = LinkedListNNPS(dim=2, particles=arrays,
                            radius_scale=kernel.radius_scale)
        res_t = []
        if side == 'compiled':
            ae = AccelerationEval(arrays, groups, kernel)
            SPHCompiler(ae, None).compile()
            ae.set_nnps(nn)
            for ti, (t, dt) in enumerate(times):
                del results[:]
                EVAL[0] = min(ti, 1)
                reset(arrays)
                nn.update()
                try:
                    ae.compute(t, dt)
                except Exception as e:  # noqa
                    # the generated code raised in the middle of a program
                    results.append((-2, dict(exception=repr(e)), []))
                res_t.append(list(results))
        else:
            ip = Interp(arrays, groups, kernel, nn)
            for ti, (t, dt) in enumerate(times):
                del results[:]
                EVAL[0] = min(ti, 1)
                reset(arrays)
                nn.update()
                try:
                    ip.compute(t, dt)
                except Exception as e:  # noqa
                    results.append((-1, dict(exception=repr(e)), []))
                res_t.append(list(results))
        out[side] = res_t
    return out


def compare(progs, out):
    probs = []
    for ti, (rc, rr) in enumerate(zip(out['compiled'], out['reference'])):
        cexc = [st for (pj, st, lg) in rc if pj == -2]
        if cexc:
            # the compiled evaluation stopped in program len(rc)-1
            probs.append((min(len(rc) - 1, len(progs) - 1),
                          'call %d: compiled evaluator raised %s' % (
                              ti, cexc[0].get('exception'))))
            continue
        if len(rc) != len(rr):
            exc = [st for (pj, st, lg) in rr if pj == -1]
            if exc:
                # the reference interpreter stopped in program len(rr)-1
                probs.append((len(rr) - 1, 'call %d: reference interpreter '
                              'raised %s' % (ti, exc[0].get('exception'))))
            else:
                probs.append((None, 'number of program boundaries %d vs %d'
                              % (len(rc), len(rr))))
            continue
        for (pi, stc, logc), (pj, str_, logr) in zip(rc, rr):
            if stc != str_:
                keys = [k for k in stc if stc[k] != str_.get(k)]
                probs.append((pi, 'call %d: particle data differ in %s: '
                              'compiled %r reference %r' % (
                                  ti, keys[:3], [stc[k] for k in keys[:2]],
                                  [str_[k] for k in keys[:2]])))
            elif logc != logr:
                probs.append((pi, 'call %d: callback logs differ: compiled '
                              '%r reference %r' % (ti, logc[:8], logr[:8])))
    return probs


def _job(progs):
    times = [(0.0, 0.1), (1.0, 0.25)]
    try:
        out = run_pack(progs, times)
    except SystemExit:
        # bisect down to the programs whose generated code does not compile
        if len(progs) == 1:
            return 1, [(0, 'generated code failed to compile', progs[0])], 0
        h = len(progs) // 2
        a, b = _job(progs[:h]), _job(progs[h:])
        return a[0] + b[0], a[1] + b[1], a[2] + b[2]
    probs = compare(progs, out)
    res = []
    for pi, what in probs:
        res.append((pi, what, progs[pi] if pi is not None else None))
    distinct = set()
    for (pi, st, lg) in out['reference'][0]:
        distinct.add(hashlib.md5(repr(st).encode()).hexdigest())
    return len(progs), res, len(distinct)


def classify(prog):
    tags = set()
    for g in prog:
        for gg in [g] + g['subgroups']:
            if gg['iterate']:
                tags.add('iterate')
            if gg['condition']:
                tags.add('condition')
            if not gg['real']:
                tags.add('real=False')
            if gg['start_idx'] != 0 or gg['stop_idx'] is not None:
                tags.add('range')
            if gg['update_nnps']:
                tags.add('update_nnps')
        if g['subgroups']:
            tags.add('subgroups')
    return '+'.join(sorted(tags)) or 'plain'


def run(ctx):
    progs = programs(ctx.thorough, ctx.seed)
    pack = 24
    jobs = [progs[i:i + pack] for i in range(0, len(progs), pack)]
    res = map_jobs(_job, jobs, ctx.ncpu, job_timeout=3000)
    viol = {}
    n = 0
    ndist = 0
    for job, r in zip(jobs, res):
        if isinstance(r, Crash):
            viol.setdefault('groups:crash', (r.reason, dict(programs=job[:2])))
            continue
        n += r[0]
        ndist += r[2] if len(r) > 2 else 0
        for pi, what, prog in r[1]:
            key = 'groups:%s%s' % (
                'does-not-compile:' if 'failed to compile' in what else '',
                classify(prog) if prog else 'pack')
            if key not in viol:
                viol[key] = (what, dict(program=prog))
    vs = [Violation(k, w, rep) for k, (w, rep) in sorted(viol.items())]
    cov = dict(programs=n, disagreements_checked=n, states=ndist,
               transitions=2 * n, traces_validated_against_impl=2 * n,
               packs=len(jobs), exhaustive=True,
               samples=[progs[130], progs[-1]],
               rule='group-tree grammar: all 128 subsets of the seven hooks '
                    '(non-commutative integer trace updates) in a default '
                    'group; every single (thorough: pair of) flag '
                    'deviation(s) real / index range (ints and constant '
                    'names) / iterate(min,max) x convergence after '
                    '1,2,4,never / condition / pre / post / update_nnps of a '
                    'three-equation group followed by a neighbour-dependent '
                    'probe group; two-group programs over all destination/'
                    'source wirings of 3 arrays; every deviated group between '
                    'plain groups on the same arrays and destinations '
                    '(context independence); sub-groups with their own '
                    'flags inside 8 kinds of parents; every program is '
                    'evaluated twice (t=0 and t=1) by the compiled code and '
                    'by the reference interpreter on arrays with ghost '
                    'particles')
    assumptions = ['the reference interpreter (vlib/ref/sph_interp.py) is '
                   'the model of the documented semantics',
                   'programs are packed 24 per generated module; a boundary '
                   'group snapshots and resets the arrays between programs',
                   'compiled with OpenMP off, LinkedListNNPS without cache']
    return Result('model_checking', cov, assumptions, vs)


def replay(ctx, obj):
    r = _job([obj['program']])
    return dict(violates=bool(r[1]), problems=[x[1] for x in r[1]][:3])
