"""C19 - the adaptive time step is the documented minimum over all particles.

E4a: complete enumeration of small collections of particle arrays (presence
of each criterion property, per-particle values, smoothing lengths, empty
arrays, ghost particles carrying extreme values) on the real
Integrator.compute_time_step / Solver._compute_timestep.
See DESIGN.md section 4, C19.
"""
import itertools
import math

import numpy as np

from vlib.runner import Result, Violation
from vlib.pool import map_jobs, Crash

PROPS = ('dt_cfl', 'dt_force', 'dt_visc', 'dt_adapt')
# per-particle value profiles (dt_cfl, dt_force, dt_visc, dt_adapt)
PROFILES = [(0.0, 0.0, 0.0, 0.0), (0.5, 0.5, 0.5, 0.5), (4.0, 0.5, 0.0, 4.0),
            (0.0, 4.0, 0.5, 0.5), (0.5, 0.0, 4.0, 0.0), (4.0, 4.0, 4.0, 0.25)]
HS = (0.25, 1.0, 2.0)
GHOST_PROFILE = (64.0, 64.0, 64.0, 1.0 / 64)   # extreme, must be ignored


class ArrSpec(object):
    __slots__ = ('present', 'prof', 'h', 'ghost')

    def __init__(self, present, prof, h, ghost):
        self.present = present   # tuple of 4 bools
        self.prof = prof         # tuple of profile indices, one per real
        self.h = h               # tuple of h per real particle
        self.ghost = ghost

    def key(self):
        return (self.present, self.prof, self.h, self.ghost)


def full_specs():
    out = []
    for present in itertools.product((False, True), repeat=4):
        for n in (0, 1, 2):
            for prof in itertools.product(range(len(PROFILES)), repeat=n):
                for h in itertools.product(HS, repeat=n):
                    for ghost in ((False, True) if n > 0 else (False,)):
                        out.append(ArrSpec(present, prof, h, ghost))
    return out


def reduced_specs():
    out = []
    pres = [(False,) * 4, (True, False, False, False),
            (False, True, False, False), (False, False, True, False),
            (True, True, True, False), (False, False, False, True),
            (True, True, True, True)]
    for present in pres:
        out.append(ArrSpec(present, (), (), False))            # empty array
        out.append(ArrSpec(present, (1,), (2.0,), False))
        out.append(ArrSpec(present, (2, 3), (1.0, 0.25), True))
        out.append(ArrSpec(present, (0,), (1.0,), False))
        out.append(ArrSpec(present, (5,), (2.0,), True))
    return out


_cache = {}


def build_array(spec, name):
    from pysph.base.utils import get_particle_array
    k = (spec.key(), name)
    if k in _cache:
        return _cache[k]
    n = len(spec.prof)
    ng = 1 if spec.ghost else 0
    x = np.arange(n + ng, dtype=float)
    # ghosts copy the smoothing length of a real particle
    h = list(spec.h) + ([spec.h[0]] if ng else [])
    pa = get_particle_array(name=name, x=x, h=np.array(h, dtype=float))
    for i, p in enumerate(PROPS):
        if spec.present[i]:
            vals = [PROFILES[q][i] for q in spec.prof] + \
                ([GHOST_PROFILE[i]] if ng else [])
            pa.add_property(p, data=np.array(vals, dtype=float)
                            if (n + ng) else None)
    if ng:
        pa.get('tag', only_real_particles=False)[n] = 2
        pa.align_particles()
    # NNPS.update_domain() refreshes h.minimum / h.maximum every step
    pa.update_min_max(['h'])
    _cache[k] = pa
    return pa


def reference(specs, cfl):
    """The statement, evaluated independently.  Returns the step or None."""
    reals = []
    for s in specs:
        for q, hh in zip(s.prof, s.h):
            reals.append((s, PROFILES[q], hh))
    # explicit dt_adapt
    if any(s.present[3] for s in specs):
        vals = [pr[3] for (s, pr, hh) in reals if s.present[3]]
        if vals and min(vals) > 0:
            return min(vals), 'dt_adapt'
        if not vals:
            pass
    hs = [hh for (s, pr, hh) in reals]
    if not hs:
        return None, 'no-particles'
    hmin = min(hs)
    crit = []
    for i in range(3):
        vals = [pr[i] for (s, pr, hh) in reals if s.present[i]]
        if vals and max(vals) > 0:
            m = max(vals)
            if i == 1:
                crit.append(math.sqrt(hmin / math.sqrt(m)))
            else:
                crit.append(hmin / m)
    if not crit:
        return None, 'none'
    return cfl * min(crit), 'criteria'


class StubEval(object):
    def __init__(self, arrays):
        self.particle_arrays = arrays


def evaluate(specs, cfl, fixed_h):
    from pysph.sph.integrator import Integrator
    import pysph.solver.solver as SS
    arrays = [build_array(s, 'a%d' % i) for i, s in enumerate(specs)]
    integ = Integrator()
    integ.set_acceleration_evals(StubEval(arrays))
    integ.set_fixed_h(fixed_h)
    got = integ.compute_time_step(0.125, cfl)
    sol = SS.Solver(dim=1, integrator=integ, dt=0.125, tf=1.0,
                    adaptive_timestep=True, cfl=cfl)
    got2 = sol._compute_timestep()
    # the same question asked in the middle of the start-up damping phase:
    # the answer must be the undamped nominal step (or the adaptive one)
    sol3 = SS.Solver(dim=1, integrator=integ, dt=0.125, tf=10.0, n_damp=4,
                     adaptive_timestep=True, cfl=cfl)
    sol3.dt = sol3._get_timestep()
    sol3.count = 1
    sol3.dt = sol3._get_timestep()
    got3 = sol3._compute_timestep()
    # history: the same integrator is asked again after the smoothing
    # lengths changed in place (same particle counts)
    got4 = None
    if not fixed_h:
        specs2 = next_specs(specs)
        saved = []
        for pa, s2 in zip(arrays, specs2):
            h = pa.get('h', only_real_particles=False)
            saved.append(h.copy())
            n = len(s2.h)
            if n:
                h[:n] = s2.h
                h[n:] = s2.h[0]
            pa.update_min_max(['h'])
        try:
            got4 = integ.compute_time_step(0.125, cfl)
        finally:
            for pa, h0 in zip(arrays, saved):
                pa.get('h', only_real_particles=False)[:] = h0
                pa.update_min_max(['h'])
    return got, got2, got3, got4


def next_specs(specs):
    return [ArrSpec(s.present, s.prof,
                    tuple(HS[(HS.index(h) + 1) % len(HS)] for h in s.h),
                    s.ghost) for s in specs]


def classify(specs):
    tags = []
    if any(len(s.prof) == 0 for s in specs):
        tags.append('empty-array')
    hs = [hh for s in specs for hh in s.h]
    if hs and min(hs) > 1.0:
        tags.append('all-h>1')
    return ','.join(tags) if tags else 'general'


def judge(specs, cfl, fixed_h):
    want, why = reference(specs, cfl)
    try:
        got, got2, got3, got4 = evaluate(specs, cfl, fixed_h)
    except Exception as e:  # noqa
        return ('exception:%s' % type(e).__name__, repr(e))

    def eq(a, b):
        if a is None or b is None:
            return a is None and b is None
        return abs(a - b) <= 1e-12 * max(abs(a), abs(b))
    if not eq(got, want):
        kind = 'too-large' if (want is not None and (
            got is None or got > want)) else 'too-small'
        if want is None:
            kind = 'spurious-constraint'
        return ('%s:%s' % (kind, why), 'compute_time_step gave %r, statement '
                'gives %r (%s)' % (got, want, why))
    exp2 = want if want is not None else 0.125
    if not eq(got2, exp2):
        return ('solver-fallback', 'Solver._compute_timestep gave %r, '
                'expected %r' % (got2, exp2))
    if not eq(got3, exp2):
        return ('solver-fallback-while-damping', 'Solver._compute_timestep '
                'during damping gave %r, expected the undamped %r'
                % (got3, exp2))
    if not fixed_h:
        want4, why4 = reference(next_specs(specs), cfl)
        if not eq(got4, want4):
            return ('after-h-change:%s' % why4, 'second query on the same '
                    'integrator after every h moved to the next value of '
                    '%r gave %r, statement gives %r' % (HS, got4, want4))
    return None


def spec_repr(specs):
    return [dict(present=[p for p, f in zip(PROPS, s.present) if f],
                 real=[dict(zip(PROPS, PROFILES[q]), h=hh)
                       for q, hh in zip(s.prof, s.h)],
                 ghost=s.ghost) for s in specs]


def _job(args):
    combos = args
    viol = {}
    n = 0
    nontriv = set()
    for (specs, cfl, fixed_h) in combos:
        n += 1
        pr = judge(specs, cfl, fixed_h)
        want, why = reference(specs, cfl)
        if want is not None:
            nontriv.add((round(want, 12), why))
        if pr is not None:
            key = 'dt:%s:%s' % (pr[0], classify(specs))
            size = sum(len(s.prof) for s in specs) + len(specs)
            if key not in viol or size < viol[key][0]:
                viol[key] = (size, pr[1], dict(specs=[list(s.key())
                                                      for s in specs],
                                               cfl=cfl, fixed_h=fixed_h,
                                               readable=spec_repr(specs)))
    return n, nontriv, viol


def combos(thorough, seed):
    full = full_specs()
    red = reduced_specs()
    out = []
    cfls = (0.3, 1.0)
    for a in full:
        for cfl in cfls:
            for fh in (False, True):
                out.append(((a,), cfl, fh))
    # two arrays: one fully enumerated x reduced menu (both orders matter:
    # the code folds over arrays in order)
    sub = full if thorough else full[(seed % 3)::3]
    for a in sub:
        for b in red:
            if thorough:
                for cfl in cfls:
                    for fh in (False, True):
                        out.append(((a, b), cfl, fh))
                        out.append(((b, a), cfl, fh))
            else:
                out.append(((a, b), 0.3, False))
                out.append(((b, a), 1.0, False))
    # three arrays from the reduced menu
    r3 = red if thorough else red[::2]
    for a in r3:
        for b in red:
            for c in r3:
                out.append(((a, b, c), 0.3, False))
                if thorough:
                    out.append(((a, b, c), 1.0, True))
    return out


def run(ctx):
    cs = combos(ctx.thorough, ctx.seed)
    chunk = max(500, len(cs) // (ctx.ncpu * 6))
    jobs = [cs[i:i + chunk] for i in range(0, len(cs), chunk)]
    res = map_jobs(_job, jobs, ctx.ncpu)
    viol = {}
    n = 0
    nontriv = set()
    for r in res:
        if isinstance(r, Crash):
            raise RuntimeError('worker crashed %r' % r)
        a, b, v = r
        n += a
        nontriv |= b
        for k, x in v.items():
            if k not in viol or x[0] < viol[k][0]:
                viol[k] = x
    vs = [Violation(k, '%s [%s cfl=%r fixed_h=%r]' % (
        w, rep['readable'], rep['cfl'], rep['fixed_h']), rep)
        for k, (sz, w, rep) in sorted(viol.items())]
    cov = dict(evaluations=n, distinct_nontrivial=len(nontriv),
               exhaustive=True,
               samples=[spec_repr(cs[(ctx.seed * 131 + 5000) % len(cs)][0])],
               rule='single arrays: all (presence of dt_cfl/dt_force/dt_visc/'
                    'dt_adapt) x 0-2 real particles x 6 value profiles x 3 '
                    'smoothing lengths x optional ghost with extreme values '
                    'x cfl {0.3,1} x fixed_h; pairs: full x reduced menu in '
                    'both orders (thorough: x cfl x fixed_h); triples from the '
                    'reduced menu; '
                    'non-trivial = distinct (expected step, deciding rule)')
    assumptions = ['h.minimum is refreshed with update_min_max() before each '
                   'query, as NNPS.update_domain() does every step',
                   'ghost particles carry the smoothing length of a real '
                   'particle (so "smallest smoothing length" is unambiguous) '
                   'and extreme criterion values (so inclusion of ghosts is '
                   'visible)',
                   'values outside the small value lattice are not covered']
    return Result('exploration', cov, assumptions, vs)


def replay(ctx, obj):
    specs = tuple(ArrSpec(tuple(s[0]), tuple(s[1]), tuple(s[2]), s[3])
                  for s in obj['specs'])
    pr = judge(specs, obj['cfl'], obj['fixed_h'])
    return dict(violates=pr is not None, problem=pr,
                reference=reference(specs, obj['cfl']))
