"""C09 - pair-symmetric momentum equations conserve linear/angular momentum.

E4a: all placements of <=k particles on a perturbed lattice with masses,
densities, pressures, velocities and smoothing lengths from small alphabets,
one array and two mutually interacting arrays, every kernel, several
neighbour algorithms; compiled evaluators; oracle sum(m a) = 0 (and
sum(m x cross a) = 0 for central terms).  See DESIGN.md section 4, C09.
"""
import itertools
import math

import numpy as np

from vlib.runner import Result, Violation
from vlib.pool import map_jobs, Crash
from vlib import eqtable as T

# (module, class, ctor kwargs, central?, needs)   central => angular too
EQS = [
    ('pysph.sph.wc.basic', 'MomentumEquation', dict(c0=10.0, alpha=0.5,
                                                    beta=1.0), True),
    ('pysph.sph.wc.basic', 'MomentumEquation',
     dict(c0=10.0, alpha=0.5, beta=1.0, tensile_correction=True), True),
    ('pysph.sph.wc.basic', 'MomentumEquationDeltaSPH',
     dict(rho0=1000.0, c0=10.0, alpha=0.3), True),
    ('pysph.sph.wc.transport_velocity', 'MomentumEquationPressureGradient',
     dict(pb=3.0), True),
    ('pysph.sph.wc.transport_velocity', 'MomentumEquationViscosity',
     dict(nu=0.01), False),
    ('pysph.sph.wc.transport_velocity', 'MomentumEquationArtificialViscosity',
     dict(c0=10.0, alpha=0.2), True),
    ('pysph.sph.wc.transport_velocity', 'MomentumEquationArtificialStress',
     dict(), False),
    ('pysph.sph.wc.edac', 'MomentumEquationPressureGradient', dict(pb=2.0),
     True),   # same class name as the TVF one: gets its own evaluator
    # number-density form of the pressure gradient (external flow EDAC);
    # same class name as the WCSPH one: lives in the second evaluator too
    ('pysph.sph.wc.edac', 'MomentumEquation', dict(c0=10.0), True),
    ('pysph.sph.wc.viscosity', 'LaminarViscosity', dict(nu=0.01), False),
    ('pysph.sph.wc.viscosity', 'MonaghanSignalViscosityFluids',
     dict(alpha=0.5, h=0.1), True),
    ('pysph.sph.wc.viscosity', 'ClearyArtificialViscosity',
     dict(dim=2, alpha=0.7), True),
    ('pysph.sph.wc.viscosity', 'LaminarViscosityDeltaSPH',
     dict(dim=2, rho0=1000.0, nu=0.01), True),
    ('pysph.sph.gas_dynamics.basic', 'Monaghan92Accelerations',
     dict(alpha=1.0, beta=2.0), True),
    ('pysph.sph.gas_dynamics.basic', 'MPMAccelerations', dict(beta=2.0),
     True),
    ('pysph.sph.solid_mech.basic', 'MomentumEquationWithStress', dict(),
     False),
]
KERNELS = [('CubicSpline', (1, 2, 3)), ('WendlandQuintic', (2, 3)),
           ('Gaussian', (1, 2, 3)), ('QuinticSpline', (1, 2, 3)),
           ('WendlandQuinticC4', (2, 3)), ('WendlandQuinticC6', (2, 3)),
           ('SuperGaussian', (1, 2, 3)), ('WendlandQuinticC2_1D', (1,)),
           ('WendlandQuinticC4_1D', (1,)), ('WendlandQuinticC6_1D', (1,))]
NNPS = ['LinkedListNNPS', 'SpatialHashNNPS', 'CellIndexingNNPS',
        'BoxSortNNPS', 'OctreeNNPS', 'StratifiedHashNNPS:num_levels=2',
        'DictBoxSortNNPS', 'ExtendedSpatialHashNNPS', 'ZOrderNNPS',
        'CompressedOctreeNNPS', 'StratifiedHashNNPS:num_levels=3',
        # tiny hash tables: several occupied cells share a bucket
        'SpatialHashNNPS:table_size=3',
        'ExtendedSpatialHashNNPS:table_size=2',
        'StratifiedHashNNPS:num_levels=2,table_size=3',
        # one array only (recorded C01 findings for several arrays)
        'ExtendedZOrderNNPS', 'StratifiedSFCNNPS']
SINGLE_ARRAY_ONLY = ('ExtendedZOrderNNPS', 'StratifiedSFCNNPS')


def nnps_menu(ncfg, thorough, two):
    """The default algorithm for every configuration; for every fifth one
    (thorough: every one) four (five) of the others as well, taking turns."""
    others = [n for n in NNPS[1:] if not (two and n in SINGLE_ARRAY_ONLY)]
    if thorough:
        # five of the others for every configuration, taking turns
        k = (5 * ncfg) % len(others)
        return NNPS[:1] + [others[(k + j) % len(others)] for j in range(5)]
    if ncfg % 5:
        return NNPS[:1]
    k = (ncfg // 5) % len(others)
    return NNPS[:1] + [others[(k + j) % len(others)] for j in range(4)]

H0 = 0.5
# values given to the physical fields (3-value alphabets)
ALPH = dict(m=[1.0, 2.5, 0.4], rho=[1000.0, 1200.0, 700.0],
            p=[5.0, -3.0, 40.0], h=[H0, 1.5 * H0, 0.75 * H0],
            u=[0.3, -1.1, 0.7], v=[-0.4, 0.9, 0.2], w=[0.6, -0.2, -0.8])


def instantiate(dest, sources):
    import importlib
    out = []
    for mod, cls, kw, central in EQS:
        c = getattr(importlib.import_module(mod), cls)
        out.append((mod.split('.')[-1] + '.' + cls +
                    ('+tensile' if kw.get('tensile_correction') else ''),
                    c(dest=dest, sources=list(sources), **kw), central))
    return out


def all_props(arrnames):
    need = set()
    for nm, eq, central in instantiate(arrnames[0], arrnames):
        d, s, idd, iss = T.equation_needs(eq)
        need |= d | s | idd | iss
    return sorted(need - {'tag', 'pid', 'gid'})


def fill(pa, pts, idx0, pattern, props):
    """Deterministic distinct values; physical fields from the alphabets."""
    n = len(pts)
    x = np.array([p[0] for p in pts], dtype=float)
    y = np.array([p[1] for p in pts], dtype=float)
    z = np.array([p[2] for p in pts], dtype=float)
    pa.extend(n)
    pa.align_particles()
    g = lambda nm: pa.get(nm, only_real_particles=False)
    g('x')[:] = x
    g('y')[:] = y
    g('z')[:] = z
    for k, nm in enumerate(props):
        if nm in ('x', 'y', 'z'):
            continue
        a = g(nm)
        for i in range(n):
            j = idx0 + i
            if nm in ALPH:
                a[i] = ALPH[nm][(pattern // (3 ** (j % 4)) + j) % 3]
            elif nm == 'cs':
                a[i] = 10.0 + 0.5 * ((j + pattern) % 3)
            elif nm in ('V',):
                a[i] = 900.0 + 35.0 * ((j * 2 + pattern) % 3)
            elif nm in ('omega', 'alpha1', 'alpha2'):
                a[i] = 1.0 + 0.1 * ((j + pattern) % 3)
            elif nm == 'pavg':
                a[i] = 1.25          # uniform: see DESIGN.md C09
            elif nm == 'e':
                a[i] = 2.0 + 0.3 * ((j + pattern) % 3)
            elif nm == 'wdeltap':
                a[i] = 0.7
            elif nm == 'n':
                a[i] = 4.0
            elif nm in ('dt_cfl', 'del2e', 'au', 'av', 'aw', 'ae', 'auhat',
                        'avhat', 'awhat', 'arho'):
                a[i] = 0.0
            else:
                # stresses, advection velocities, ...: distinct smooth values
                a[i] = 0.01 * (1 + (7 * k + 3 * j + pattern) % 11) * \
                    (1 if (k + j) % 2 else -1)


def perturbed_lattice(dim, n):
    pts = []
    rng = [range(n) if a < dim else [0] for a in range(3)]
    for i in rng[0]:
        for j in rng[1]:
            for k in rng[2]:
                q = i + n * j + n * n * k
                off = [0.0137 * math.sin(1.0 + 2.3 * q),
                       0.0119 * math.cos(0.7 + 1.9 * q),
                       0.0151 * math.sin(2.1 + 3.1 * q)]
                pts.append(tuple((c * H0 + off[a]) if a < dim else 0.0
                                 for a, c in enumerate((i, j, k))))
    return pts


def _job(args, only=None):
    """only = (pts, pattern, nnps name): evaluate just that configuration
    (replay)."""
    kname, dim, two, thorough, seed = args
    from compyle.config import get_config
    get_config().use_openmp = False
    import pysph.base.kernels as K
    import pysph.base.nnps as N
    from pysph.base.particle_array import ParticleArray
    from pysph.sph.equation import Group
    from pysph.tools.sph_evaluator import SPHEvaluator
    from pysph.base.nnps_base import set_number_of_threads
    kernel = getattr(K, kname)(dim=dim)
    names = ['a', 'b'] if two else ['a']
    props = all_props(names)
    snaps = {}

    def mk_arrays():
        out = []
        for nm in names:
            pa = ParticleArray(name=nm)
            for p in props:
                pa.add_property(p)
            out.append(pa)
        return out
    arrays = mk_arrays()
    holder = {'arrays': arrays}
    groups = []
    groups2 = []
    labels = []
    for gi, (label, _, central) in enumerate(instantiate('a', names)):
        eqs = []
        for dest in names:
            eqs.append(instantiate(dest, names)[gi][1])

        def post(label=label):
            rec = []
            for pa in holder['arrays']:
                rec.append(tuple(pa.get(q, only_real_particles=False).copy()
                                 for q in ('au', 'av', 'aw')))
                for q in ('au', 'av', 'aw', 'auhat', 'avhat', 'awhat', 'ae',
                          'dt_cfl', 'del2e'):
                    if q in pa.properties:
                        pa.get(q, only_real_particles=False)[:] = 0.0
            snaps[label] = rec
        if label.startswith('edac.'):
            groups2.append(Group(equations=eqs, post=post))
        else:
            groups.append(Group(equations=eqs, post=post))
        labels.append((label, central))
    ev = SPHEvaluator(arrays, groups, dim=dim, kernel=kernel)
    ev2 = SPHEvaluator(arrays, groups2, dim=dim, kernel=kernel)
    lat = perturbed_lattice(dim, {1: 7, 2: 4, 3: 3}[dim])
    kmax = {1: 4, 2: 3, 3: 3}[dim] if not thorough else 4
    viol = {}
    ncfg = 0
    nontriv = set()
    combos = []
    for k in range(1, kmax + 1):
        cs = list(itertools.combinations(range(len(lat)), k))
        lim = 60 if not thorough else 400
        if len(cs) > lim:
            st = len(cs) // lim + 1
            cs = cs[seed % st::st]
        combos += cs
    if only is not None:
        combos = [None]
    for ms in combos:
        pts = [lat[i] for i in ms] if only is None else \
            [tuple(q) for q in only[0]]
        if two and len(pts) < 2:
            # the second array would be empty: the one-array job covers a
            # single particle, and the octree classes have a recorded C01
            # finding (undefined behaviour) on empty arrays
            continue
        npat = 3 if not thorough else 6
        for pattern in (range(npat) if only is None else [only[1]]):
            if two:
                split = [pts[0::2], pts[1::2]]
            else:
                split = [pts]
            arrs = mk_arrays()
            o = 0
            for pa, pp in zip(arrs, split):
                fill(pa, pp, o, pattern + 3 * seed, props)
                o += len(pp)
            holder['arrays'] = arrs
            ev.update_particle_arrays(arrs)
            ev2.func_eval.update_particle_arrays(arrs)
            for nn_name in (nnps_menu(ncfg, thorough, two)
                            if only is None else [only[2]]):
                if nn_name != 'LinkedListNNPS':
                    kw = {}
                    cls_name = nn_name.split(':')[0]
                    if ':' in nn_name:
                        for item in nn_name.split(':')[1].split(','):
                            kw[item.split('=')[0]] = int(item.split('=')[1])
                    if cls_name in ('OctreeNNPS', 'CompressedOctreeNNPS'):
                        # small leaves and the multi-thread tree builder: a
                        # deep tree even for four particles
                        kw['leaf_max_particles'] = 2
                        set_number_of_threads(2)
                    try:
                        nn = getattr(N, cls_name)(
                            dim=dim, particles=arrs,
                            radius_scale=kernel.radius_scale, **kw)
                    finally:
                        set_number_of_threads(1)
                    ev.func_eval.set_nnps(nn)
                    ev.nnps = nn
                ev2.func_eval.set_nnps(ev.nnps)
                snaps.clear()
                ev.evaluate(0.0, 0.1)
                ev2.evaluate(0.0, 0.1)
                ncfg += 1
                M = np.concatenate([pa.get('m', only_real_particles=False)
                                    for pa in arrs])
                X = np.vstack([np.column_stack([
                    pa.get(q, only_real_particles=False) for q in 'xyz'])
                    for pa in arrs])
                for label, central in labels:
                    A = np.vstack([np.column_stack(r) for r in snaps[label]])
                    if not np.all(np.isfinite(A)):
                        key = 'conservation:%s:non-finite' % label
                        viol.setdefault(key, ('accelerations %r' % A.tolist(),
                                              dict(pts=pts, pattern=pattern,
                                                   nnps=nn_name)))
                        continue
                    scale = float(np.sum(M[:, None] * np.abs(A)))
                    if scale > 0:
                        nontriv.add((label, len(pts)))
                    lin = np.abs(np.sum(M[:, None] * A, axis=0)).max()
                    if lin > 1e-11 * scale + 1e-300:
                        key = 'conservation:%s:linear' % label
                        viol.setdefault(key, (
                            'sum(m a)=%r vs sum(m|a|)=%g with %s' % (
                                np.sum(M[:, None] * A, axis=0).tolist(),
                                scale, nn_name),
                            dict(pts=pts, pattern=pattern, nnps=nn_name)))
                    if central:
                        L = np.sum(M[:, None] * np.cross(X, A), axis=0)
                        sc = float(np.sum(M * np.linalg.norm(X, axis=1) *
                                          np.linalg.norm(A, axis=1)))
                        if np.abs(L).max() > 1e-11 * sc + 1e-300:
                            key = 'conservation:%s:angular' % label
                            viol.setdefault(key, (
                                'sum(m x cross a)=%r vs %g with %s' % (
                                    L.tolist(), sc, nn_name),
                                dict(pts=pts, pattern=pattern, nnps=nn_name)))
    # summation density strictly positive wherever a particle sees itself
    return ncfg, nontriv, {k: (w, dict(rep, kernel=kname, dim=dim, two=two,
                                       seed=seed))
                           for k, (w, rep) in viol.items()}


def _density_job(args):
    kname, dim = args
    from compyle.config import get_config
    get_config().use_openmp = False
    import pysph.base.kernels as K
    from pysph.base.utils import get_particle_array
    from pysph.sph.basic_equations import SummationDensity
    from pysph.sph.equation import Group
    from pysph.tools.sph_evaluator import SPHEvaluator
    kernel = getattr(K, kname)(dim=dim)
    lat = perturbed_lattice(dim, {1: 6, 2: 3, 3: 2}[dim])
    viol = {}
    n = 0
    pa = get_particle_array(name='a', x=[0.0], h=[H0], m=[1.0], rho=[0.0])
    ev = SPHEvaluator([pa], [Group(equations=[SummationDensity(
        dest='a', sources=['a'])])], dim=dim, kernel=kernel)
    for k in (1, 2, 3):
        for ms in itertools.combinations(range(len(lat)), k):
            pts = [lat[i] for i in ms]
            for hp in ([H0] * k, [H0 * (1 + i) for i in range(k)],
                       [H0 / 8] * k):
                arr = get_particle_array(
                    name='a', x=[p[0] for p in pts], y=[p[1] for p in pts],
                    z=[p[2] for p in pts], h=hp, m=[1.0 + 0.5 * i
                                                    for i in range(k)],
                    rho=[0.0] * k)
                ev.update_particle_arrays([arr])
                ev.evaluate()
                n += 1
                rho = arr.get('rho', only_real_particles=False)
                if not np.all(rho > 0):
                    viol.setdefault('conservation:SummationDensity:'
                                    'non-positive', (
                                        'rho=%r for pts=%r h=%r' % (
                                            rho.tolist(), pts, hp),
                                        dict(pts=pts, h=hp, kernel=kname,
                                             dim=dim)))
    return n, set(), viol


def run(ctx):
    jobs = []
    for kname, dims in KERNELS:
        for d in dims:
            for two in (False, True):
                jobs.append(('cons', (kname, d, two, ctx.thorough, ctx.seed)))
            jobs.append(('rho', (kname, d)))

    def disp(j):
        return _job(j[1]) if j[0] == 'cons' else _density_job(j[1])
    res = map_jobs(disp, jobs, ctx.ncpu, job_timeout=3000)
    viol = {}
    n = 0
    nontriv = set()
    for job, r in zip(jobs, res):
        if isinstance(r, Crash):
            viol.setdefault('conservation:crash', (
                'worker crashed: %s (%r)' % (r.reason, job[1][:3]),
                dict(job=list(job[1][:3]))))
            continue
        a, b, v = r
        n += a
        nontriv |= b
        for k, x in v.items():
            viol.setdefault(k, x)
    vs = [Violation(k, '%s [%r]' % (w, rep), rep)
          for k, (w, rep) in sorted(viol.items())]
    cov = dict(evaluations=n, distinct_nontrivial=len(nontriv),
               equations=[e[1] for e in EQS], kernels=len(jobs) // 3,
               exhaustive=True,
               samples=[dict(kernel='CubicSpline', dim=2,
                             pts=perturbed_lattice(2, 4)[:3])],
               rule='for every kernel x dim: subsets of <=k points of a '
                    'perturbed lattice (all subsets up to a cap, beyond it a '
                    'residue class rotating with the seed) x value patterns '
                    'for m, rho, p, u, v, w, h (unequal h included) x one '
                    'array / two mutually interacting arrays x neighbour '
                    'algorithms; each listed momentum equation in its own '
                    'group of one compiled evaluator; non-trivial = '
                    '(equation, k) with non-zero accelerations')
    assumptions = ['tolerance 1e-11 relative to sum(m|a|)',
                   'EDAC pressure gradient is pair-symmetric only for a '
                   'uniform p_avg: the field is set uniform',
                   'neighbour algorithms with recorded C01 findings (z-order '
                   'family cross-array search) are not used here, and no '
                   'array is ever empty (octree finding)',
                   'compiled with OpenMP off']
    return Result('exploration', cov, assumptions, vs)


def replay(ctx, obj):
    if 'h' in obj:
        n, _, viol = _density_job((obj['kernel'], obj['dim']))
    else:
        n, _, viol = _job((obj['kernel'], obj['dim'], obj['two'], False,
                           obj.get('seed', ctx.seed)),
                          only=(obj['pts'], obj['pattern'], obj['nnps']))
    return dict(violates=bool(viol),
                problems=[(k, w[:300]) for k, (w, r) in sorted(viol.items())])
