"""C18 - the solver controller never loses a command or a wake-up.

E1: all interleavings (at lock / condition / shared-container granularity,
iteratively preemption-bounded) of the real CommandManager / Controller code
running on shim primitives.  See DESIGN.md section 4, C18.
"""
import hashlib
import itertools
import json
import os
import time

from vlib import sched as S
from vlib.runner import Result, Violation


# ---------------------------------------------------------------------------
# traced containers: every access is a scheduling point + lockset record
# ---------------------------------------------------------------------------
class _Traced(object):
    def _t(self, rw):
        h = self._h
        s = h.s
        if s.current is None or s.aborting:
            return
        s.point(('mem', self._name, rw))
        held = frozenset(o.lid for o in s.objs
                         if isinstance(o, S.ShimLock) and o.owner is s.current)
        key = (self._name, rw)
        old = h.locksets.get(key)
        h.locksets[key] = held if old is None else (old & held)
        h.accessors.setdefault(self._name, set()).add(s.current.tid)

    def _obs(self, v):
        s = self._h.s
        if s.current is not None:
            s.current.observe((self._name, v))
        return v


class TList(_Traced, list):
    def __init__(self, h, name, it=()):
        list.__init__(self, it)
        self._h = h
        self._name = name

    def append(self, x):
        self._t('w')
        list.append(self, x)

    def pop(self, i=-1):
        self._t('w')
        return self._obs(list.pop(self, i))

    def __len__(self):
        self._t('r')
        return self._obs(list.__len__(self))

    def __iter__(self):
        self._t('r')
        return iter(self._obs(list(list.__iter__(self))))

    def __getitem__(self, i):
        self._t('r')
        return self._obs(list.__getitem__(self, i))

    def remove(self, x):
        self._t('w')
        list.remove(self, x)

    def insert(self, i, x):
        self._t('w')
        list.insert(self, i, x)

    def raw(self):
        return list(list.__iter__(self))


class TDict(_Traced, dict):
    def __init__(self, h, name, it=()):
        dict.__init__(self, it)
        self._h = h
        self._name = name

    def __setitem__(self, k, v):
        self._t('w')
        dict.__setitem__(self, k, v)

    def __getitem__(self, k):
        self._t('r')
        v = dict.__getitem__(self, k)
        self._obs((k, repr(v) if not isinstance(v, S.ShimLock) else v.lid))
        return v

    def __delitem__(self, k):
        self._t('w')
        dict.__delitem__(self, k)

    def __contains__(self, k):
        self._t('r')
        return self._obs(dict.__contains__(self, k))

    def __len__(self):
        self._t('r')
        return self._obs(dict.__len__(self))

    def get(self, k, d=None):
        self._t('r')
        return dict.get(self, k, d)

    def pop(self, k, *d):
        self._t('w')
        return dict.pop(self, k, *d)

    def raw(self):
        return dict(dict.items(self))


class TSet(_Traced, set):
    def __init__(self, h, name, it=()):
        set.__init__(self, it)
        self._h = h
        self._name = name

    def add(self, x):
        self._t('w')
        set.add(self, x)

    def remove(self, x):
        self._t('w')
        set.remove(self, x)

    def discard(self, x):
        self._t('w')
        set.discard(self, x)

    def __len__(self):
        self._t('r')
        return self._obs(set.__len__(self))

    def __contains__(self, x):
        self._t('r')
        return self._obs(set.__contains__(self, x))

    def raw(self):
        return sorted(set.__iter__(self))


_SCALAR = (bool, int, float, str, type(None))
_UNTRACED_ATTRS = ('rank',)


def _traced_cm_class(base, h):
    """Subclass of CommandManager whose plain-data attributes (flags,
    counters) are scheduling points on every read and write, so that racy
    accesses to fields other than the five containers are interleaved too."""
    s = h.s

    def point(name, rw):
        if s.current is None or s.aborting:
            return
        s.point(('attr', name, rw))
        held = frozenset(o.lid for o in s.objs
                         if isinstance(o, S.ShimLock) and o.owner is s.current)
        key = ('attr.' + name, rw)
        old = h.locksets.get(key)
        h.locksets[key] = held if old is None else (old & held)

    class TracedCM(base):
        def __getattribute__(self, name):
            v = object.__getattribute__(self, name)
            if name.startswith('__') or name in _UNTRACED_ATTRS:
                return v
            d = object.__getattribute__(self, '__dict__')
            if name in d and isinstance(v, _SCALAR):
                point(name, 'r')
                v = object.__getattribute__(self, name)
                if s.current is not None:
                    s.current.observe(('attr', name, v))
            return v

        def __setattr__(self, name, value):
            d = object.__getattribute__(self, '__dict__')
            if name not in _UNTRACED_ATTRS and (
                    isinstance(value, _SCALAR) or
                    isinstance(d.get(name, self), _SCALAR)):
                point(name, 'w')
            object.__setattr__(self, name, value)
    TracedCM.__name__ = base.__name__
    return TracedCM


# ---------------------------------------------------------------------------
# fake solver
# ---------------------------------------------------------------------------
class FakePA(object):
    def __init__(self, name, **kw):
        self.name = name
        self.__dict__.update(kw)


class FakeSolver(object):
    def __init__(self, h):
        d = self.__dict__
        d['_h'] = h
        d['t'] = 0.0
        d['tf'] = 1.0
        d['dt'] = 0.1
        d['count'] = 0
        d['pfreq'] = 10
        d['fname'] = 'f'
        d['detailed_output'] = False
        d['output_directory'] = 'out'
        d['command_interval'] = 1
        d['particles'] = [FakePA('fluid', a=11, b=22, c=33)]

    def __setattr__(self, k, v):
        h = self._h
        cur = h.s.current
        h.log.append(('set', k, v, cur.name if cur else None, h.in_execute,
                      h.cp))
        self.__dict__[k] = v

    def __getattribute__(self, k):
        v = object.__getattribute__(self, k)
        if k in ('t', 'tf', 'dt', 'count', 'pfreq'):
            h = object.__getattribute__(self, '_h')
            cur = h.s.current
            if cur is not None:
                cur.observe(('solver.' + k, v))
        return v


# ---------------------------------------------------------------------------
# interface programs (simplest first)
# ---------------------------------------------------------------------------
def P_get(h, c, me):
    v = c.get('count')
    h.note(me, 'get', v)


def P_status(h, c, me):
    v = c.get_status()
    h.note(me, 'status', v)


def P_bset(h, c, me):
    cb = h.controller(block=True)
    cb.set('pfreq', 7)
    h.expect_set.append(('pfreq', 7, 'any'))


def P_qset(h, c, me):
    val = 50 + h.s.current.tid
    tid = c.set('tf', val)
    h.expect_set.append(('tf', val, 'solver'))
    r = c.get_result(tid)
    h.check_eq(me, 'result of queued set', r, None)


def P_q2(h, c, me):
    t1 = c.get_named_particle_array('fluid', ['a'])
    t2 = c.get_named_particle_array('fluid', ['b', 'c'])
    r2 = c.get_result(t2)
    r1 = c.get_result(t1)
    h.check_eq(me, 'result of task 1', r1, [11])
    h.check_eq(me, 'result of task 2', r2, [22, 33])


def P_q2_inorder(h, c, me):
    t1 = c.get_named_particle_array('fluid', ['a'])
    t2 = c.set('dt', 0.25)
    h.expect_set.append(('dt', 0.25, 'solver'))
    r1 = c.get_result(t1)
    r2 = c.get_result(t2)
    h.check_eq(me, 'result of task 1', r1, [11])
    h.check_eq(me, 'result of task 2', r2, None)


def P_q3(h, c, me):
    """a result collected while another task is outstanding, then a third
    command: task ids must stay distinct while their tasks are alive"""
    t1 = c.get_named_particle_array('fluid', ['a'])
    t2 = c.get_named_particle_array('fluid', ['b', 'c'])
    r1 = c.get_result(t1)
    t3 = c.get_named_particle_array('fluid', ['c'])
    h.check_eq(me, 'task ids of outstanding tasks distinct', t2 != t3, True)
    r2 = c.get_result(t2)
    r3 = c.get_result(t3)
    h.check_eq(me, 'result of task 1', r1, [11])
    h.check_eq(me, 'result of task 2', r2, [22, 33])
    h.check_eq(me, 'result of task 3', r3, [33])


def P_lock_poll(h, c, me):
    tid = c.get_named_particle_array('fluid', ['c'])
    lk = c.get_task_lock(tid)
    h.note(me, 'locked', lk.locked())
    r = c.get_result(tid)
    h.check_eq(me, 'result', r, [33])


def _pause_window(h, c, me, body=None):
    c.pause_on_next()
    c.wait()
    h.window_open(me)
    h.s.point(('yield', me))
    if body:
        body()
    h.s.point(('yield', me))
    h.window_close(me)
    c.cont()


def P_pwc(h, c, me):
    _pause_window(h, c, me)


def P_pwqc(h, c, me):
    box = {}

    def body():
        val = 70 + h.s.current.tid
        box['tid'] = c.set('tf', val)
        h.expect_set.append(('tf', val, 'solver'))
    _pause_window(h, c, me, body)
    r = c.get_result(box['tid'])
    h.check_eq(me, 'result of queued set in pause', r, None)


def P_pc(h, c, me):
    c.pause_on_next()
    c.cont()


def P_pwbc(h, c, me):
    """pause, wait, meet the other pausing interface, continue: two clients
    that both asked for a pause are both told when the solver has paused (an
    operator continues only once every client is ready)"""
    c.pause_on_next()
    c.wait()
    h.window_open(me)
    with h.bar:
        h.bar_flags.add(me)
        h.bar.notify_all()
        while len(h.bar_flags) < h.n_barrier:
            h.bar.wait()
    h.window_close(me)
    c.cont()


def P_pwc2(h, c, me):
    _pause_window(h, c, me)
    _pause_window(h, c, me)


def P_pwc_get(h, c, me):
    def body():
        h.note(me, 'count_in_pause', c.get('count'))
    _pause_window(h, c, me, body)


PROGRAMS = {f.__name__[2:]: f for f in (
    P_get, P_status, P_bset, P_qset, P_q2, P_q2_inorder, P_q3, P_lock_poll,
    P_pwc,
    P_pwqc, P_pc, P_pwc2, P_pwc_get, P_pwbc)}

SINGLE = ['get', 'status', 'bset', 'qset', 'q2', 'q2_inorder', 'q3',
          'lock_poll',
          'pwc', 'pwc_get', 'pwqc', 'pc', 'pwc2']
PAIRS = [('qset', 'qset'), ('pwc', 'qset'), ('pwc', 'pwc'), ('pwbc', 'pwbc'),
         ('pc', 'qset'), ('pwqc', 'qset'), ('pwc', 'q2'), ('pc', 'pwc'),
         ('bset', 'qset'), ('pwqc', 'pwc'), ('q2', 'q2_inorder'), ('pc', 'pc'),
         ('pwc', 'get')]
TRIPLES = [('pwc', 'pwc', 'qset'), ('pc', 'pwc', 'qset')]


# ---------------------------------------------------------------------------
# harness
# ---------------------------------------------------------------------------
_RAW_DISPATCH = [None]


class Harness(object):
    def __init__(self, scenario, budget, prefix, trace_mem=True,
                 max_steps=4000):
        import pysph.solver.controller as C
        self.C = C
        self.scenario = scenario
        self.budget = budget
        self.log = []
        self.notes = []
        self.problems = []
        self.expect_set = []
        self.in_execute = False
        self.locksets = {}
        self.accessors = {}
        self.windows = {}
        self.cp = 0
        self.drain = False
        s = self.s = S.Scheduler(prefix, max_steps=max_steps,
                                 priority_low=self._low)
        # bind the module under test to the shim
        C.threading = s.shim
        C.LockType = S.ShimLock
        C.id = s.det_id
        if _RAW_DISPATCH[0] is None:
            _RAW_DISPATCH[0] = C.CommandManager.__dict__['dispatch'].__wrapped__
        C.CommandManager.dispatch = C.synchronized(_RAW_DISPATCH[0])
        self.bar = s.shim.Condition()
        self.bar.cid = 'barrier'
        self.bar.lock.lid = 'barrier.lock'
        self.bar_flags = set()
        self.n_barrier = sum(1 for p in scenario if p == 'pwbc')
        self.solver = FakeSolver(self)
        cm = self.cm = C.CommandManager(self.solver)
        for nm in ('rlock', 'res_lock'):
            getattr(cm, nm).lid = nm
        for nm in ('plock', 'qlock'):
            getattr(cm, nm).cid = nm
            getattr(cm, nm).lock.lid = nm + '.lock'
        if trace_mem:
            cm.__class__ = _traced_cm_class(C.CommandManager, self)
            cm.queue = TList(self, 'queue', cm.queue)
            cm.queue_dict = TDict(self, 'queue_dict', cm.queue_dict)
            cm.queue_lock_map = TDict(self, 'queue_lock_map',
                                      cm.queue_lock_map)
            cm.results = TDict(self, 'results', cm.results)
            cm.pause = TSet(self, 'pause', cm.pause)
        self.ifaces = []
        self.solver_lt = s.spawn('solver', self._solver_body)
        for k, pname in enumerate(scenario):
            self._spawn_iface(k, pname)
        s.state_fn = self._state

    def controller(self, block=False):
        return self.C.Controller(self.cm, block)

    def _spawn_iface(self, k, pname):
        prog = PROGRAMS[pname]
        name = 'if%d:%s' % (k, pname)

        def body():
            c = self.controller(block=False)
            prog(self, c, name)
        self.ifaces.append(self.s.spawn(name, body))

    def _low(self, lt):
        return lt is self.solver_lt and self.drain

    # -- solver thread ------------------------------------------------------
    def _raw_cm(self):
        cm = self.cm

        def raw(x):
            return x.raw() if hasattr(x, 'raw') else x
        q = raw(cm.queue)
        return (tuple(q), tuple(sorted(raw(cm.queue_dict))),
                tuple(sorted(raw(cm.queue_lock_map))),
                tuple(sorted((k, repr(v)) for k, v in raw(cm.results).items())),
                tuple(sorted(raw(cm.pause))),
                tuple(sorted((k, v) for k, v in cm.__dict__.items()
                             if isinstance(v, (bool, int, str, type(None))))))

    def _solver_body(self):
        s = self.s
        last = None
        while True:
            alive = [t for t in self.ifaces if not t.done]
            if self.cp >= self.budget:
                if not alive:
                    break
                self.drain = True
                snap = (self._raw_cm(), s.prim_state(),
                        tuple((t.tid, t.nops, repr(t.pending))
                              for t in self.ifaces))
                if snap == last:
                    # a whole control point passed without any change: the
                    # blocked interface threads are blocked forever.
                    self.stuck = True
                    return
                last = snap
            self.solver.count += 1
            self.in_execute = True
            try:
                self.cm.execute_commands(self.solver)
            finally:
                self.in_execute = False
            self.cp += 1
            s.point(('cp_end', self.cp))

    # -- monitors -------------------------------------------------------------
    def note(self, me, what, v):
        self.notes.append((me, what, v))

    def check_eq(self, me, what, got, want):
        if got != want:
            self.problems.append(('wrong-result',
                                  '%s: %s: got %r want %r' % (me, what, got,
                                                              want)))

    def window_open(self, me):
        self.windows[me] = self.solver.__dict__['count']

    def window_close(self, me):
        c0 = self.windows.pop(me)
        c1 = self.solver.__dict__['count']
        if c0 != c1:
            self.problems.append((
                'progress-while-paused',
                '%s: solver.count went %d -> %d between wait() returning and '
                'cont()' % (me, c0, c1)))

    def _state(self, s):
        th = tuple((t.tid, t.nops, t.obs.hexdigest()[:12], t.done,
                    repr(t.pending)) for t in s.threads)
        mon = (tuple(sorted(self.windows.items())), len(self.problems),
               tuple(self.expect_set), self.cp if not self.drain else -1,
               tuple(x[:5] for x in self.log if x[1] != 'count'),
               tuple(self.notes))
        raw = (th, s.prim_state(), self._raw_cm(), mon)
        return hashlib.md5(repr(raw).encode()).hexdigest()

    # -- end-of-execution oracle ---------------------------------------------
    def check(self, exe):
        probs = list(self.problems)
        s = self.s
        for t in s.threads:
            if t.exc is not None:
                probs.append(('exception:%s' % type(t.exc).__name__,
                              'thread %s raised %r' % (t.name, t.exc)))
        if getattr(self, 'stuck', False) or exe.verdict == 'deadlock':
            blocked = exe.blocked or []
            kinds = sorted(set('%s:%s@%s' % (n.split(':')[-1], p[0], p[1])
                               for n, p in blocked if p))
            probs.append(('blocked-forever:' + ','.join(kinds),
                          'threads blocked forever: %r' % (blocked,)))
        elif exe.verdict != 'done':
            probs.append(('harness:' + str(exe.verdict),
                          'execution did not finish: %s' % exe.verdict))
        else:
            # exactly-once execution of each expected side effect
            sets = [x for x in self.log if x[0] == 'set' and x[1] != 'count']
            for (k, v, who) in self.expect_set:
                m = [x for x in sets if x[1] == k and x[2] == v]
                if len(m) != 1:
                    probs.append(('not-exactly-once',
                                  'command set(%s=%r) executed %d times'
                                  % (k, v, len(m))))
                elif who == 'solver' and (m[0][3] != 'solver' or not m[0][4]):
                    probs.append(('executed-outside-control-point',
                                  'command set(%s=%r) executed by %s '
                                  '(in execute_commands=%s)' % (
                                      k, v, m[0][3], m[0][4])))
            extra = [x for x in sets
                     if not any(x[1] == k and x[2] == v
                                for (k, v, w) in self.expect_set)]
            if extra:
                probs.append(('spurious-command', 'unexpected sets %r'
                              % (extra,)))
            q, qd, qlm, res, pause = self._raw_cm()[:5]
            if q or qd or qlm or res or pause:
                probs.append(('leftover-state',
                              'queue=%r queue_dict=%r lock_map=%r results=%r '
                              'pause=%r at end' % (q, qd, qlm, res, pause)))
        exe.result = (tuple(self.notes),
                      tuple(x for x in self.log if x[1] != 'count'))
        # de-duplicate
        seen = set()
        out = []
        for k, w in probs:
            if k not in seen:
                seen.add(k)
                out.append((k, w))
        return out


def explore(scenario, budget, bound, max_exec=None, prune=True, part=None):
    hs = {}

    def make(prefix):
        h = Harness(scenario, budget, prefix)
        hs['h'] = h
        return h.s

    def check(exe, s):
        return hs['h'].check(exe)
    ex = S.Explorer(make, check, bound, prune=prune, max_exec=max_exec)
    ex.explore(part)
    ex.locksets = hs['h'].locksets
    return ex


def replay_schedule(scenario, budget, choices):
    h = Harness(scenario, budget, choices)
    exe = h.s.run()
    probs = h.check(exe)
    return exe, probs, h


def _scen_worker(args):
    scenario, budget, bound, max_exec = args[:4]
    part = args[4] if len(args) > 4 else None
    t0 = time.time()
    ex = explore(scenario, budget, bound, max_exec=max_exec, part=part)
    probs = {}
    for k, w, ch, pre in ex.problems:
        if k not in probs or (pre, len(ch)) < (probs[k][2], len(probs[k][1])):
            probs[k] = (w, ch, pre)
    # confirm determinism of each reported schedule
    confirmed = {}
    for k, (w, ch, pre) in probs.items():
        r1 = replay_schedule(scenario, budget, ch)
        r2 = replay_schedule(scenario, budget, ch)
        k1 = sorted(x[0] for x in r1[1])
        k2 = sorted(x[0] for x in r2[1])
        if k1 != k2 or k not in k1 or r1[0].trace != r2[0].trace:
            raise S.HarnessError('non-deterministic replay for %s %r'
                                 % (scenario, ch))
        confirmed[k] = (w, ch, pre, [(t, repr(op)) for t, op in r1[0].trace])
    ls = {'%s:%s' % k: sorted(v) for k, v in ex.locksets.items()}
    ex0 = replay_schedule(scenario, budget, [])[0]
    sample_trace = ['%d:%s' % (t, '/'.join(str(x) for x in op))
                    for t, op in ex0.trace][:60]
    return dict(scenario=list(scenario), budget=budget, bound=bound,
                part=part, state_set=ex.states if part else None,
                executions=ex.executions, transitions=ex.transitions,
                states=len(ex.states), outcomes=len(ex.outcomes),
                outcome_list=[(str(k[0]), list(k[1]), v)
                              for k, v in ex.outcomes.items()][:40],
                max_len=ex.max_len, capped=ex.capped, pruned=ex.pruned,
                problems=confirmed, locksets=ls, sample_trace=sample_trace, wall=time.time() - t0)


def conformance():
    """Pin the shim's semantics against real threading on micro-scenarios."""
    import threading
    out = []

    # 1. notify with no waiter is lost (real)
    c = threading.Condition()
    with c:
        c.notify()
    got = []

    def w():
        with c:
            got.append(c.wait(0.05))
    t = threading.Thread(target=w)
    t.start()
    t.join()
    out.append(('real:lost-notify', got == [False]))

    # shim: same scenario must deadlock
    s = S.Scheduler()
    sc = S.ShimCondition(s)

    def a():
        with sc:
            sc.notify()

    def b():
        with sc:
            sc.wait()
    s.spawn('a', a)
    s.spawn('b', b)
    exe = s.run()
    out.append(('shim:lost-notify', exe.verdict == 'deadlock'))

    # 2. waiter woken needs the lock: notify then waiter runs only after
    #    release (shim): order of trace
    s = S.Scheduler(prefix=[1])  # start b first
    sc = S.ShimCondition(s)
    order = []

    def a2():
        with sc:
            sc.notify()
            order.append('a-after-notify')
        order.append('a-released')

    def b2():
        with sc:
            sc.wait()
            order.append('b-woke')
    s.spawn('a', a2)
    s.spawn('b', b2)
    exe = s.run()
    out.append(('shim:wake-needs-lock',
                exe.verdict == 'done' and
                order.index('b-woke') > order.index('a-after-notify')))

    # 3. RLock re-entrancy, Lock non re-entrancy
    s = S.Scheduler()
    rl = S.ShimRLock(s)
    pl = S.ShimLock(s)

    def r():
        with rl:
            with rl:
                pass

    s.spawn('r', r)
    out.append(('shim:rlock-reentrant', s.run().verdict == 'done'))
    s = S.Scheduler()
    pl = S.ShimLock(s)

    def p():
        pl.acquire()
        pl.acquire()
    s.spawn('p', p)
    out.append(('shim:lock-not-reentrant', s.run().verdict == 'deadlock'))
    lk = threading.Lock()
    lk.acquire()
    out.append(('real:lock-not-reentrant', lk.acquire(False) is False))

    # 4. plain lock may be released by another thread (real + shim)
    lk = threading.Lock()
    lk.acquire()
    t = threading.Thread(target=lk.release)
    t.start()
    t.join()
    out.append(('real:release-by-other', not lk.locked()))
    s = S.Scheduler()
    pl = S.ShimLock(s)
    res = []

    def p1():
        pl.acquire()

    def p2():
        pl.release()
        res.append(pl.locked())
    s.spawn('p1', p1)
    s.spawn('p2', p2)
    exe = s.run()
    out.append(('shim:release-by-other', exe.verdict == 'done' and
                res == [False]))
    bad = [n for n, ok in out if not ok]
    if bad:
        raise S.HarnessError('shim conformance failed: %r' % bad)
    return len(out)


def run(ctx):
    from multiprocessing import Pool
    nconf = conformance()
    if ctx.thorough:
        budget, bound = 3, 3
        multi = [(pr, 2, 3, 150000) for pr in PAIRS]
        multi += [(tr, 2, 2, 150000) for tr in TRIPLES]
        nparts = 8
    else:
        budget, bound = 2, 2
        k = ctx.seed % len(PAIRS)
        pairs = PAIRS[:6] + [PAIRS[6 + (k % (len(PAIRS) - 6))]]
        multi = [(pr, 2, 2, 60000) for pr in pairs]
        nparts = 4
    jobs = []
    for j in multi:
        jobs += [j + ((i, nparts),) for i in range(nparts)]
    jobs += [((p,), budget, bound, None) for p in SINGLE]
    from vlib.pool import map_jobs
    results = map_jobs(_scen_worker, jobs, ctx.ncpu)
    viols = []
    tot_exec = tot_tr = tot_st = tot_out = 0
    capped = []
    per = []
    samples = []
    racy = {}
    merged = {}
    for r in results:
        key = tuple(r['scenario'])
        m = merged.setdefault(key, dict(
            scenario=r['scenario'], budget=r['budget'], bound=r['bound'],
            executions=0, transitions=0, pruned=0, max_len=0, capped=False,
            parts=0, _states=set(), states=0, _out=set()))
        m['executions'] += r['executions']
        m['transitions'] += r['transitions']
        m['pruned'] += r['pruned']
        m['max_len'] = max(m['max_len'], r['max_len'])
        m['capped'] = m['capped'] or r['capped']
        m['parts'] += 1
        if r['state_set'] is not None:
            m['_states'] |= r['state_set']
        else:
            m['states'] += r['states']
        m['_out'] |= set(json.dumps(o[:2]) for o in r['outcome_list'])
        for k, v in r['locksets'].items():
            racy[k] = sorted(set(racy.get(k, v)) & set(v))
        for key2, (w, ch, pre, trace) in r['problems'].items():
            viols.append(Violation(
                'controller:%s' % key2,
                '%s in scenario %s (preemptions=%d, %d decisions)' % (
                    w, '+'.join(r['scenario']), pre, len(ch)),
                dict(scenario=r['scenario'], budget=r['budget'],
                     choices=ch, trace=trace)))
    for m in merged.values():
        m['states'] += len(m.pop('_states'))
        m['outcomes'] = len(m.pop('_out'))
        tot_exec += m['executions']
        tot_tr += m['transitions']
        tot_st += m['states']
        tot_out += m['outcomes']
        if m['capped']:
            capped.append(m['scenario'])
        per.append(m)
    for r in results[:3] + results[-2:]:
        samples.append({'scenario': r['scenario'],
                        'outcomes': r['outcome_list'][:4],
                        'first_schedule_trace': r.get('sample_trace')})
    cov = dict(
        states=tot_st, transitions=tot_tr,
        traces_validated_against_impl=tot_exec,
        executions=tot_exec, distinct_outcomes=tot_out,
        scenarios=per, samples=samples,
        exhaustive=not capped, capped_scenarios=capped,
        preemption_bound=bound, control_point_budget=budget,
        shim_conformance_scenarios=nconf,
        empty_common_locksets=sorted(k for k, v in racy.items() if not v),
        rule='every schedule of the real CommandManager/Controller code on '
             'shim primitives with <= bound preemptions; states are hashed '
             '(thread op counts + observation digests, lock/condition state, '
             'queue/queue_dict/results/lock_map/pause, monitor state)')
    assumptions = [
        'scheduling points: Lock/RLock/Condition operations, thread start, '
        'and every access to queue, queue_dict, queue_lock_map, results, '
        'pause; code between two points is atomic (GIL-level atomicity of a '
        'single container operation assumed)',
        'the XML-RPC / multiprocessing transports in solver_interfaces.py '
        'are not explored, only the Controller/CommandManager protocol',
        'solver thread executes a budget of control points under full '
        'interleaving and afterwards runs only when no interface thread is '
        'enabled (drain rule)',
    ]
    return Result('model_checking', cov, assumptions, viols)


def replay(ctx, obj):
    exe, probs, h = replay_schedule(tuple(obj['scenario']), obj['budget'],
                                    obj['choices'])
    return dict(violates=bool(probs), problems=probs, verdict=exe.verdict,
                trace=[(t, repr(op)) for t, op in exe.trace])
