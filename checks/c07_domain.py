"""C07 - periodic and mirror domains create exactly the right ghost particles.

E4a (placements on a lattice containing the faces, the ghost-layer
threshold, corners and points outside the box) + E2 (move-then-update
rounds) on the real DomainManager, against an independent construction of
the expected image multiset.  See DESIGN.md section 4, C07.
"""
import itertools

import numpy as np

from vlib.runner import Result, Violation
from vlib.pool import map_jobs, Crash

RS = 2.0
H0 = 0.25           # radius_scale*h0 = 0.5 = one "cell"
CELL = RS * H0


def make_arrays(cfg):
    from pysph.base.utils import get_particle_array
    pas = []
    uid = 0
    for a in range(cfg['narr']):
        idx = [i for i, k in enumerate(cfg['arr']) if k == a]
        n = len(idx)
        x = np.array([cfg['pts'][i][0] for i in idx], dtype=float)
        y = np.array([cfg['pts'][i][1] for i in idx], dtype=float)
        z = np.array([cfg['pts'][i][2] for i in idx], dtype=float)
        h = np.array([cfg['h'][i] for i in idx], dtype=float)
        u = np.array([1.0 + 0.5 * i for i in idx], dtype=float)
        v = np.array([-2.0 - 0.25 * i for i in idx], dtype=float)
        w = np.array([3.0 + 0.125 * i for i in idx], dtype=float)
        pa = get_particle_array(name='a%d' % a, x=x, y=y, z=z, h=h, u=u, v=v,
                                w=w, m=np.array([7.0 + i for i in idx]),
                                rho=np.array([100.0 + i for i in idx]))
        pa.add_property('uid', data=np.arange(uid, uid + n, dtype=float))
        pa.add_property('s3', stride=3,
                        data=np.array([[10 * (uid + i) + 1, 10 * (uid + i) + 2,
                                        10 * (uid + i) + 3]
                                       for i in range(n)], dtype=float).ravel()
                        if n else None)
        uid += n
        pas.append(pa)
    return pas


def LL(cfg):
    """Box lengths per axis (cfg['Ls'] for boxes that are not cubes)."""
    if cfg.get('Ls'):
        return tuple(cfg['Ls'])
    return (cfg['L'],) * 3


def make_domain(cfg):
    from pysph.base.nnps import DomainManager
    L = LL(cfg)
    dim = cfg['dim']
    kw = dict(xmin=0.0, xmax=L[0], n_layers=cfg['n_layers'])
    if dim > 1:
        kw.update(ymin=0.0, ymax=L[1])
    if dim > 2:
        kw.update(zmin=0.0, zmax=L[2])
    for a, ax in enumerate('xyz'[:dim]):
        if cfg['axes'][a] == 'p':
            kw['periodic_in_' + ax] = True
        elif cfg['axes'][a] == 'm':
            kw['mirror_in_' + ax] = True
    if cfg.get('props') is not None:
        kw['props'] = cfg['props']
    return DomainManager(**kw)


def wrap(c, L):
    if c < 0.0:
        c = c + L
    if c > L:
        c = c - L
    return c


def expected(cfg, state):
    """state: per array list of dict(uid, pos, h, vel, other) of REAL
    particles before the update.  Returns per array (reals_after, images,
    optional_images) where an image = (uid, pos tuple, vel tuple)."""
    dim, L, axes = cfg['dim'], LL(cfg), cfg['axes']
    hmax = max([p['h'] for arr in state for p in arr] or [0.0])
    cs = RS * hmax
    if cs < 1e-6:
        cs = 1.0
    ell = cfg['n_layers'] * cs
    out = []
    for arr in state:
        reals = []
        imgs = []
        opt = []
        for p in arr:
            pos = list(p['pos'])
            for a in range(dim):
                if axes[a] == 'p':
                    pos[a] = wrap(pos[a], L[a])
            reals.append(dict(p, pos=tuple(pos)))
            choices = []
            for a in range(3):
                ch = [(0, False)]
                if a < dim and axes[a] in 'pm':
                    dlo = pos[a] - 0.0
                    dhi = L[a] - pos[a]
                    for d, sgn in ((dlo, +1), (dhi, -1)):
                        if d <= ell + 1e-12:
                            ch.append((sgn, abs(d - ell) <= 1e-12))
                choices.append(ch)
            for combo in itertools.product(*choices):
                if all(c[0] == 0 for c in combo):
                    continue
                ip = list(pos)
                iv = list(p['vel'])
                for a, (sgn, _) in enumerate(combo):
                    if sgn == 0:
                        continue
                    if axes[a] == 'p':
                        ip[a] = pos[a] + sgn * L[a]
                    else:
                        face = 0.0 if sgn > 0 else L[a]
                        ip[a] = 2 * face - pos[a]
                        iv[a] = -iv[a]
                img = (p['uid'], tuple(ip), tuple(iv))
                if any(c[1] for c in combo):
                    opt.append(img)
                else:
                    imgs.append(img)
        out.append((reals, imgs, opt))
    return out


def read_state(pas):
    st = []
    for pa in pas:
        n = pa.get_number_of_particles()
        g = lambda p: pa.get(p, only_real_particles=False)
        arr = []
        x, y, z, h, u, v, w, uid, tag, m, s3 = (g(p) for p in (
            'x', 'y', 'z', 'h', 'u', 'v', 'w', 'uid', 'tag', 'm', 's3'))
        for i in range(n):
            arr.append(dict(uid=float(uid[i]), pos=(float(x[i]), float(y[i]),
                                                    float(z[i])),
                            h=float(h[i]), vel=(float(u[i]), float(v[i]),
                                                float(w[i])),
                            tag=int(tag[i]), m=float(m[i]),
                            s3=tuple(s3[3 * i:3 * i + 3].tolist())))
        st.append(arr)
    return st


def rnd(t):
    return tuple(round(c, 9) for c in t)


def compare(cfg, before, pas, round_no):
    """before: state of real particles before update_domain."""
    probs = []
    exp = expected(cfg, before)
    after = read_state(pas)
    copied = cfg.get('props')
    for a, (reals, imgs, opt) in enumerate(exp):
        act = after[a]
        act_real = [p for p in act if p['tag'] == 0]
        act_ghost = [p for p in act if p['tag'] != 0]
        nl = len(act_real)
        if [p['tag'] for p in act[:nl]] != [0] * nl or \
                pas[a].num_real_particles != nl:
            probs.append(('real-not-first', dict(array=a, tags=[
                p['tag'] for p in act])))
        if any(p['tag'] != 2 for p in act_ghost):
            probs.append(('ghost-tag', dict(array=a)))
        # real particles: unchanged except wrapped coordinates, inside box
        er = sorted((p['uid'], rnd(p['pos']), rnd(p['vel']), p['h'], p['m'],
                     p['s3']) for p in reals)
        ar = sorted((p['uid'], rnd(p['pos']), rnd(p['vel']), p['h'], p['m'],
                     p['s3']) for p in act_real)
        if er != ar:
            probs.append(('real-particles-altered', dict(
                array=a, expected=er[:3], actual=ar[:3], round=round_no)))
            continue
        for p in act_real:
            for ax in range(cfg['dim']):
                if cfg['axes'][ax] == 'p' and not (
                        -1e-12 <= p['pos'][ax] <= LL(cfg)[ax] + 1e-12):
                    probs.append(('real-outside-box', dict(array=a,
                                                           pos=p['pos'])))
        # ghosts: exactly the expected images (optional ones either way)
        ag = sorted((p['uid'], rnd(p['pos'])) for p in act_ghost)
        must = sorted((u, rnd(pos)) for (u, pos, vel) in imgs)
        may = sorted((u, rnd(pos)) for (u, pos, vel) in imgs + opt)
        from collections import Counter
        ca, cm, cy = Counter(ag), Counter(must), Counter(may)
        missing = list((cm - ca).elements())
        extra = list((ca - cy).elements())
        if missing:
            kinds = set()
            for (u, pos) in missing:
                src = [r for r in reals if r['uid'] == u][0]
                nshift = sum(1 for ax in range(3)
                             if abs(pos[ax] - src['pos'][ax]) > 1e-9)
                kinds.add({0: 'coincident', 1: 'face', 2: 'edge',
                           3: 'corner'}[nshift])
            probs.append(('ghost-missing:' + '+'.join(sorted(kinds)),
                          dict(array=a, missing=missing[:4], round=round_no,
                               ghosts=ag[:12])))
        if extra:
            probs.append(('ghost-spurious', dict(array=a, extra=extra[:4],
                                                 round=round_no)))
        if missing or extra:
            continue
        # copied properties travel with the image; mirror flips the normal
        # velocity component (compared as multisets: several images of one
        # particle may coincide when it sits on a mirror face)
        byuid = {r['uid']: r for r in reals}
        for p in act_ghost:
            src = byuid[p['uid']]
            for nm in ('h', 'm', 's3'):
                if copied is None or (nm in (copied[pas[a].name]
                                             if isinstance(copied, dict)
                                             else copied)):
                    if p[nm] != src[nm]:
                        probs.append(('ghost-property', dict(
                            array=a, prop=nm, ghost=p[nm], real=src[nm])))
        cp = copied[pas[a].name] if isinstance(copied, dict) else copied
        if cp is None or all(c in cp for c in 'uvw'):
            gv = Counter((p['uid'], rnd(p['pos']), rnd(p['vel']))
                         for p in act_ghost)
            mv = Counter((u, rnd(pos), rnd(vel)) for (u, pos, vel) in imgs)
            yv = Counter((u, rnd(pos), rnd(vel))
                         for (u, pos, vel) in imgs + opt)
            if (mv - gv) or (gv - yv):
                probs.append(('ghost-velocity', dict(
                    array=a, missing=list((mv - gv).elements())[:3],
                    unexpected=list((gv - yv).elements())[:3])))
    return probs


def run_history(cfg):
    """Returns (problems, n_updates).  cfg['moves']: list of per-round
    displacement index (applied to every particle, a lattice vector)."""
    pas = make_arrays(cfg)
    dom = make_domain(cfg)
    from pysph.base.nnps import LinkedListNNPS
    probs = []
    nup = 0
    nn = None
    for r, mv in enumerate([None] + list(cfg.get('moves', []))):
        if mv is not None:
            for pa in pas:
                nr = pa.num_real_particles
                for a, ax in enumerate('xyz'[:cfg['dim']]):
                    arr = pa.get(ax, only_real_particles=False)
                    arr[:nr] += mv[a]
            if cfg.get('adds') and cfg['adds'][r - 1]:
                # a particle created after the NNPS object, outside the box
                pa = pas[0]
                L = LL(cfg)
                pos = [(-0.25 if r % 2 else L[a] + 0.25) if a < cfg['dim']
                       and cfg['axes'][a] == 'p' else (0.25 if a < cfg['dim']
                                                       else 0.0)
                       for a in range(3)]
                uidn = 1000.0 + r
                pa.add_particles(x=[pos[0]], y=[pos[1]], z=[pos[2]], h=[H0],
                                 u=[1.5], v=[-2.5], w=[3.5], m=[9.0],
                                 rho=[101.0], uid=[uidn],
                                 s3=[uidn + 1, uidn + 2, uidn + 3])
        before = [[p for p in arr if p['tag'] == 0]
                  for arr in read_state(pas)]
        if nn is None:
            nn = LinkedListNNPS(dim=cfg['dim'], particles=pas,
                                radius_scale=RS, domain=dom)
        else:
            nn.update_domain()
            nn.update()
        nup += 1
        probs = compare(cfg, before, pas, r)
        if probs:
            break
        # idempotence: a second update with no motion changes nothing
        s1 = sorted((p['uid'], rnd(p['pos']), p['tag'])
                    for arr in read_state(pas) for p in arr)
        nn.update_domain()
        nn.update()
        nup += 1
        s2 = sorted((p['uid'], rnd(p['pos']), p['tag'])
                    for arr in read_state(pas) for p in arr)
        if s1 != s2:
            probs = [('not-idempotent', dict(before=len(s1), after=len(s2)))]
            break
        # neighbour queries on the ghosted arrays see every interacting image
        pr = neighbour_complete(cfg, pas, nn)
        if pr:
            probs = pr
            break
    return probs, nup


def neighbour_complete(cfg, pas, nn):
    """Every periodic/mirror image of a source particle that is within the
    interaction radius of a real particle must be returned by the NNPS."""
    from cyarray.api import UIntArray
    dim, L, axes = cfg['dim'], LL(cfg), cfg['axes']
    st = read_state(pas)
    nb = UIntArray()
    for di, darr in enumerate(st):
        for si, sarr in enumerate(st):
            sreal = [p for p in sarr if p['tag'] == 0]
            nn.set_context(si, di)
            for i, p in enumerate(darr):
                if p['tag'] != 0:
                    continue
                nn.get_nearest_particles(si, di, i, nb)
                got = nb.get_npy_array()[:nb.length].tolist()
                gpos = sorted(rnd(sarr[j]['pos']) for j in got)
                need = []
                shifts = [[0] if (a >= dim or axes[a] == 'n') else [-1, 0, 1]
                          for a in range(3)]
                for q in sreal:
                    for s in itertools.product(*shifts):
                        ip = list(q['pos'])
                        for a, sa in enumerate(s):
                            if sa == 0:
                                continue
                            if axes[a] == 'p':
                                ip[a] = q['pos'][a] + sa * L[a]
                            else:
                                face = 0.0 if sa > 0 else L[a]
                                ip[a] = 2 * face - q['pos'][a]
                        d = np.sqrt(sum((ip[a] - p['pos'][a]) ** 2
                                        for a in range(3)))
                        r = RS * max(p['h'], q['h'])
                        if d < r * (1 - 1e-9):
                            need.append(rnd(ip))
                from collections import Counter
                miss = list((Counter(need) - Counter(gpos)).elements())
                if miss:
                    return [('interacting-image-not-found', dict(
                        dst=di, src=si, particle=p['pos'], missing=miss[:3]))]
    return []


CAPPED = set()


def configs(thorough, seed):
    out = []
    CAPPED.clear()
    lat1 = [-0.5, 0.0, 0.25, 0.5, 1.0]     # rel. to faces: outside, on the
    # face, inside the layer, at the threshold (n_layers*cell=0.5), beyond
    for dim in (1, 2, 3):
        for L in (2.0, 1.25):
            # positions near low faces, near high faces and in the middle
            pts1 = sorted(set(lat1 + [L - c for c in lat1 if c >= 0] +
                              [L + 0.25]))
            kmax = {1: 3, 2: 2, 3: 2}[dim]
            if thorough:
                kmax = {1: 4, 2: 3, 3: 2}[dim]
            if dim == 3 and not thorough:
                pts1 = [-0.5, 0.0, 0.5, L - 0.25, L, L + 0.25]
            if dim == 2 and not thorough:
                pts1 = [c for c in pts1 if c not in (1.0, L - 1.0)]
            lat = [tuple(c) + (0.0,) * (3 - dim)
                   for c in itertools.product(pts1, repeat=dim)]
            axes_all = [ax for ax in itertools.product('pmn', repeat=dim)
                        if any(a != 'n' for a in ax)]
            for axes in axes_all:
                axes = tuple(axes) + ('n',) * (3 - dim)
                for nl in (1.0, 2.0):
                    for k in range(1, kmax + 1):
                        combos = list(itertools.combinations(range(len(lat)),
                                                             k))
                        cap = 400
                        if thorough:
                            # complete for 1-D and for pairs in 2-D; one
                            # residue class (chosen by the seed) beyond
                            cap = 10 ** 9 if (dim == 1 or (dim == 2 and k == 2)) \
                                else 2500
                        if k >= 2 and len(combos) > cap:
                            stride = len(combos) // cap + 1
                            combos = combos[seed % stride::stride]
                            CAPPED.add((dim, k, stride))
                        for ms in combos:
                            pts = [lat[i] for i in ms]
                            # mirror domains hold particles inside the box
                            if 'm' in axes and any(
                                    (axes[a] == 'm' and not 0 <= p[a] <= L)
                                    for p in pts for a in range(dim)):
                                continue
                            hs = [H0] * k
                            out.append(dict(dim=dim, L=L, axes=axes,
                                            n_layers=nl, pts=pts, h=hs,
                                            arr=[i % 2 for i in range(k)]
                                            if k > 1 else [0], narr=2,
                                            moves=[]))
    # boxes that are not cubes (2 x 1.25 x 1.5): the placements of the wide
    # cube with every coordinate beyond the middle moved with its face
    NC = (2.0, 1.25, 1.5)
    noncube = []
    wide = [c for c in out if c['L'] == 2.0 and c['dim'] >= 2]
    for c in wide[(seed % 3)::(1 if thorough else 3)]:
        c2 = dict(c)
        c2['Ls'] = NC
        c2['pts'] = [tuple((v if (v <= 1.0 or a >= c['dim'])
                            else v + NC[a] - 2.0) for a, v in enumerate(p))
                     for p in c['pts']]
        noncube.append(c2)
    out = out + noncube
    # histories: move by a lattice vector, update (x3)
    hist = []
    for c in out[::7]:
        if c['dim'] <= 2 and 'm' not in c['axes']:
            for mv in ((0.25, 0.0, 0.0), (-0.5, 0.25, 0.0)):
                c2 = dict(c)
                c2['moves'] = [mv, mv, tuple(-2 * x for x in mv)]
                hist.append(c2)
                if mv[1] == 0.0:
                    c3 = dict(c2)
                    c3['adds'] = [1, 0, 1]
                    hist.append(c3)
    # copied-property subsets (list and dict form), unequal h
    extra = []
    for c in out[::11]:
        if 'm' in c['axes']:
            continue
        for props in (['x', 'y', 'z', 'h', 'tag', 'uid', 'm'],
                      {'a0': ['x', 'y', 'z', 'h', 'tag', 'uid', 's3'],
                       'a1': ['x', 'y', 'z', 'h', 'tag', 'uid', 'u', 'v',
                              'w', 'm', 's3']}):
            c2 = dict(c)
            c2['props'] = props
            extra.append(c2)
        c3 = dict(c)
        c3['h'] = [H0 * (2 if i == 0 else 1) for i in range(len(c['pts']))]
        if c3['n_layers'] * RS * 2 * H0 < min(LL(c)[:c['dim']]):
            extra.append(c3)
    return out + hist + extra


def klass(cfg):
    t = []
    if 'p' in cfg['axes']:
        t.append('periodic')
    if 'm' in cfg['axes']:
        t.append('mirror')
    if len(set(cfg['arr'])) > 1:
        t.append('two-arrays')
    return '+'.join(t)


def _job(cfgs):
    out = []
    n = 0
    nst = 0
    for cfg in cfgs:
        try:
            pr, nup = run_history(cfg)
        except Exception as e:  # noqa
            import traceback
            pr, nup = [('exception:%s' % type(e).__name__,
                        traceback.format_exc()[-300:])], 0
        n += nup
        nst += 1
        for kind, det in pr[:1]:
            out.append((kind, det, cfg))
    return n, nst, out


def run(ctx):
    cfgs = configs(ctx.thorough, ctx.seed)
    chunk = max(20, len(cfgs) // (ctx.ncpu * 8))
    jobs = [cfgs[i:i + chunk] for i in range(0, len(cfgs), chunk)]
    res = map_jobs(_job, jobs, ctx.ncpu, job_timeout=900)
    viol = {}
    n = nst = 0
    for job, r in zip(jobs, res):
        if isinstance(r, Crash):
            viol['domain:crash'] = (0, r.reason, dict(cfgs=job[:2]))
            continue
        a, b, out = r
        n += a
        nst += b
        for kind, det, cfg in out:
            key = 'domain:%s:%s' % (kind, klass(cfg))
            size = len(cfg['pts']) * 10 + cfg['dim']
            if key not in viol or size < viol[key][0]:
                viol[key] = (size, '%s %r' % (kind, det), dict(cfg=cfg))
    vs = [Violation(k, '%s [cfg=%r]' % (w, rep.get('cfg')), rep)
          for k, (sz, w, rep) in sorted(viol.items())]
    cov = dict(states=nst, transitions=n,
               traces_validated_against_impl=nst, configurations=len(cfgs),
               exhaustive=True,
               subsampled=['dim=%d k=%d: one residue class of %d of the '
                           'placements (chosen by the seed)' % c
                           for c in sorted(CAPPED)],
               samples=[cfgs[(ctx.seed * 13 + 77) % len(cfgs)]],
               rule='boxes [0,L]^dim, L in {2, 1.25} and 2 x 1.25 x 1.5 (the narrow box puts a '
                    'particle into both ghost layers), every assignment of '
                    '{periodic, mirror, none} to the axes (at least one '
                    'active), n_layers {1,2}, 1..3 particles on a lattice '
                    'containing points outside the box, on the faces, inside '
                    'the layer, exactly at the threshold and beyond, one/two '
                    'arrays; + move/update histories (3 rounds), copied-'
                    'property subsets in list and dict form, unequal h; '
                    'every update is followed by a repeated update '
                    '(idempotence) and by neighbour queries checked against '
                    'all interacting images')
    assumptions = ['an image whose source lies exactly at the ghost-layer '
                   'threshold may or may not be created',
                   'mirror domains are only given particles inside the box',
                   'LinkedListNNPS is used as the neighbour structure on the '
                   'ghosted arrays']
    return Result('model_checking', cov, assumptions, vs)


def replay(ctx, obj):
    cfg = obj['cfg']
    cfg['pts'] = [tuple(p) for p in cfg['pts']]
    cfg['axes'] = tuple(cfg['axes'])
    cfg['moves'] = [tuple(m) for m in cfg.get('moves', [])]
    pr, n = run_history(cfg)
    return dict(violates=bool(pr), problems=pr[:3])
