"""C20 - incomplete problems are rejected at set-up, never compiled and run.

E4: finite product of (every shipped equation / stepper) x (every name it
needs, explicitly or through a precomputed symbol) x (removal site), plus
misspelt destination / source / stepper array names, in flat lists, groups
and sub-groups.  Reaching compilation is recorded by a patched compile().
See DESIGN.md section 4, C20.
"""
import contextlib
import io
import itertools

from vlib.runner import Result, Violation
from vlib.pool import map_jobs, Crash
from vlib import eqtable as T

EXTRA = dict(x=0.0, y=0.0, z=0.0, xo=0.0, yo=0.0, zo=0.0, l0=0.1,
             alphaav=1.0, T=1.0, r0=1000.0, flow_stress=1e6, A_min=0.1,
             h=0.1)


class ReachedCompilation(Exception):
    pass


def make_array(name, props):
    from pysph.base.particle_array import ParticleArray
    pa = ParticleArray(name=name)
    for p in sorted(props):
        if p not in pa.properties:
            pa.add_property(p)
    return pa


def try_build(eqs, arrays, integrator=None):
    """Build the evaluator (and compiler front end) the way Solver.setup
    does; returns ('error', message) | ('compiled', None) |
    ('other', repr)."""
    from pysph.base.kernels import CubicSpline
    from pysph.sph.acceleration_eval import AccelerationEval
    from pysph.sph.sph_compiler import SPHCompiler
    import pysph.sph.acceleration_eval_cython_helper as H

    def fake_compile(self, code):
        raise ReachedCompilation()
    old = H.AccelerationEvalCythonHelper.compile
    H.AccelerationEvalCythonHelper.compile = fake_compile
    buf = io.StringIO()
    try:
        with contextlib.redirect_stdout(buf):
            a = AccelerationEval(arrays, eqs, CubicSpline(dim=2))
            c = SPHCompiler(a, integrator)
            c.compile()
        return ('compiled', None)
    except ReachedCompilation:
        return ('compiled', None)
    except RuntimeError as e:
        return ('error', str(e))
    except Exception as e:  # noqa
        return ('other', '%s: %s' % (type(e).__name__, e))
    finally:
        H.AccelerationEvalCythonHelper.compile = old


def wrap(eq, how):
    from pysph.sph.equation import Group
    if how == 'flat':
        return [eq]
    if how == 'group':
        return [Group(equations=[eq])]
    return [Group(equations=[Group(equations=[eq])])]


def names_eq(msg, eqname, missing):
    return (eqname in msg) and (("'%s'" % missing) in msg or
                                ('"%s"' % missing) in msg or
                                (' %s' % missing) in msg)


def _eq_job(keys):
    from pysph.sph.equation import Equation
    eqs = T.discover(Equation)
    out = []
    ncase = 0
    covered = []
    notcov = []
    for key in keys:
        cls = eqs[key]
        # two sources where the class takes sources
        inst, why = T.instantiate(cls, 'dest', ('s1', 's2'), EXTRA)
        if inst is None:
            notcov.append((key, why))
            continue
        srcs = list(inst.sources) if inst.sources else []
        d, s, idd, iss = T.equation_needs(inst)
        full = {'dest': set(d) | set(idd)}
        for sn in srcs:
            full[sn] = set(s) | set(iss)
        arrays = [make_array(n, p) for n, p in full.items()]
        base = try_build([inst], arrays)
        if base[0] != 'compiled':
            notcov.append((key, 'baseline rejected: %r' % (base[1],)))
            continue
        covered.append(key)
        # tag, pid and gid exist on every particle array: not removable
        fixed = {'tag', 'pid', 'gid'}
        sites = [('dest', n, 'explicit') for n in sorted(d - fixed)] + \
                [('dest', n, 'precomputed') for n in sorted(idd - fixed)]
        if srcs:
            last = srcs[-1]
            sites += [(last, n, 'explicit') for n in sorted(s - fixed)] + \
                     [(last, n, 'precomputed') for n in sorted(iss - fixed)]
        for k, (site, name, kind) in enumerate(sites):
            # self-interaction: dest may also be a source; keep them
            # separate arrays here (names differ), so removal is unambiguous
            props = {a: set(p) for a, p in full.items()}
            props[site].discard(name)
            arrays = [make_array(n, p) for n, p in props.items()]
            how = ('flat', 'group', 'subgroup')[k % 3]
            r = try_build(wrap(inst, how), arrays)
            ncase += 1
            if r[0] == 'compiled':
                out.append(('failfast:%s-requirement-not-checked:%s' % (
                    kind, 'dest' if site == 'dest' else 'source'),
                    '%s applied to arrays where %r lacks %r (needed %s) was '
                    'accepted and reached compilation [%s]' % (
                        cls.__name__, site, name, kind, how),
                    dict(eq=key, site=site, name=name, how=how)))
            elif r[0] == 'other':
                out.append(('failfast:wrong-exception',
                            '%s without %r on %r: %s' % (cls.__name__, name,
                                                         site, r[1]),
                            dict(eq=key, site=site, name=name, how=how)))
            elif not names_eq(r[1], cls.__name__, name):
                out.append(('failfast:message-does-not-name',
                            '%s without %r on %r: message %r' % (
                                cls.__name__, name, site, r[1][:200]),
                            dict(eq=key, site=site, name=name, how=how)))
        # destination that is also the source, name needed only as s_*
        only_s = sorted(set(s) - (set(d) | set(idd)) - fixed) + \
            sorted(set(iss) - set(s) - (set(d) | set(idd)) - fixed)
        if srcs and only_s:
            inst2, _ = T.instantiate(cls, 'dest', ('dest', 's2'), EXTRA)
            if inst2 is not None and inst2.sources:
                name = only_s[0]
                props = {'dest': (set(d) | set(idd) | set(s) | set(iss)) -
                         {name}, 's2': set(s) | set(iss)}
                arrays = [make_array(n, p) for n, p in props.items()]
                r = try_build([inst2], arrays)
                ncase += 1
                if r[0] == 'compiled':
                    out.append(('failfast:self-source-not-checked',
                                '%s with dest also a source: %r missing on '
                                'it (needed as s_%s) was accepted' % (
                                    cls.__name__, name, name),
                                dict(eq=key, site='dest-as-source',
                                     name=name, how='flat')))
        # misspelt destination / source
        for what in ('dest', 'source'):
            if what == 'source' and not srcs:
                continue
            arrays = [make_array(n, p) for n, p in full.items()]
            if what == 'dest':
                i2, _ = T.instantiate(cls, 'dezt', tuple(srcs) or None, EXTRA)
            else:
                i2, _ = T.instantiate(cls, 'dest', tuple(srcs[:-1]) + ('zrc',),
                                      EXTRA)
            if i2 is None:
                continue
            r = try_build([i2], arrays)
            ncase += 1
            if r[0] == 'compiled':
                out.append(('failfast:misspelt-%s-accepted' % what,
                            '%s with a non-existent %s array reached '
                            'compilation' % (cls.__name__, what),
                            dict(eq=key, site=what, name='misspelt',
                                 how='flat')))
    return ncase, covered, notcov, out


def stepper_needs(st):
    import inspect
    need = {}
    for nm, m in inspect.getmembers(st, predicate=inspect.ismethod):
        if nm == 'initialize' or (nm.startswith('stage') and
                                  nm[5:].isdigit()):
            args = inspect.getfullargspec(m).args[1:]
            need[nm] = set(a[2:] for a in args if a.startswith('d_') and
                           a != 'd_idx')
    return need


def _stepper_job(keys):
    from pysph.sph.integrator_step import IntegratorStep
    from pysph.sph.integrator import (EulerIntegrator, PECIntegrator,
                                      TVDRK3Integrator, PEFRLIntegrator)
    from pysph.sph.equation import Equation
    sts = dict(T.discover(IntegratorStep))
    sts.update(generated_steppers())

    class Nop(Equation):
        def initialize(self, d_idx, d_x):
            d_x[d_idx] = d_x[d_idx]
    out = []
    ncase = 0
    covered = []
    notcov = []
    for key in keys:
        cls = sts[key]
        try:
            st = cls()
        except Exception as e:  # noqa
            notcov.append((key, 'constructor: %r' % e))
            continue
        need = stepper_needs(st)
        allp = set().union(*need.values()) if need else set()
        nstage = max([int(k[5:]) for k in need if k.startswith('stage')] +
                     [0])

        def integ(**kw):
            # an integrator with as many stages as the stepper defines
            if nstage >= 4:
                return PEFRLIntegrator(**kw)
            if nstage == 3:
                return TVDRK3Integrator(**kw)
            return PECIntegrator(**kw) if nstage >= 2 else \
                EulerIntegrator(**kw)
        arrays = [make_array('dest', allp | {'x'}),
                  make_array('other', allp | {'x'})]
        base = try_build([Nop(dest='dest', sources=None)], arrays,
                         integ(dest=cls(), other=cls()))
        if base[0] != 'compiled':
            notcov.append((key, 'baseline rejected: %r' % (base[1],)))
            continue
        covered.append(key)
        used = set()
        for k in need:
            if k == 'initialize' or int(k[5:]) <= max(nstage, 1):
                used |= need[k]
        for name in sorted(used - {'x'}):
            for site in ('dest', 'other'):
                props = {'dest': allp | {'x'}, 'other': allp | {'x'}}
                props[site] = props[site] - {name}
                arrays = [make_array(n, p) for n, p in props.items()]
                r = try_build([Nop(dest='dest', sources=None)], arrays,
                              integ(dest=cls(), other=cls()))
                ncase += 1
                if r[0] == 'compiled':
                    out.append(('failfast:stepper-requirement-not-checked:%s'
                                % ('first-array' if site == 'dest'
                                   else 'later-array'),
                                'stepper %s on array %r lacking %r reached '
                                'compilation' % (cls.__name__, site, name),
                                dict(stepper=key, site=site, name=name)))
                elif r[0] == 'error' and not (cls.__name__ in r[1] and
                                              name in r[1]):
                    out.append(('failfast:stepper-message-does-not-name',
                                'stepper %s lacking %r: message %r' % (
                                    cls.__name__, name, r[1][:200]),
                                dict(stepper=key, site=site, name=name)))
        arrays = [make_array('dest', allp | {'x'})]
        r = try_build([Nop(dest='dest', sources=None)], arrays,
                      integ(dest=cls(), nosuch=cls()))
        ncase += 1
        if r[0] == 'compiled':
            out.append(('failfast:stepper-for-unknown-array',
                        'integrator keyword naming no array accepted (%s)'
                        % cls.__name__, dict(stepper=key, site='keyword',
                                             name='nosuch')))
    return ncase, covered, notcov, out


def generated_steppers():
    """User-style steppers with 1-5 stages in which every method (initialize
    and each stage) needs a property of its own that no other method uses,
    with and without an initialize method."""
    import importlib.util
    import os
    d = os.path.join(os.path.expanduser('~'), 'verif_gen')
    os.makedirs(d, exist_ok=True)
    path = os.path.join(d, 'c20_gensteppers_%d.py' % os.getpid())
    src = ['from pysph.sph.integrator_step import IntegratorStep', '']
    names = []
    for n in range(1, 6):
        for init in (0, 1):
            nm = 'GenStep%d%s' % (n, 'i' if init else '')
            names.append(nm)
            src.append('class %s(IntegratorStep):' % nm)
            if init:
                src.append('    def initialize(self, d_idx, d_x, d_q0):\n'
                           '        d_q0[d_idx] = d_x[d_idx]')
            for k in range(1, n + 1):
                src.append('    def stage%d(self, d_idx, d_x, d_q%d, dt):\n'
                           '        d_x[d_idx] += dt*d_q%d[d_idx]' % (k, k, k))
            src.append('')
    with open(path, 'w') as f:
        f.write('\n'.join(src))
    spec = importlib.util.spec_from_file_location('c20_gensteppers', path)
    mod = importlib.util.module_from_spec(spec)
    spec.loader.exec_module(mod)
    return {'generated.' + nm: getattr(mod, nm) for nm in names}


def generated_equations():
    """One user-style equation per precomputed symbol (alone).  The classes
    live in a real module file (the code generator reads their source)."""
    import importlib.util
    import os
    d = os.path.join(os.path.expanduser('~'), 'verif_gen')
    os.makedirs(d, exist_ok=True)
    path = os.path.join(d, 'c20_generated_%d.py' % os.getpid())
    src = ['from pysph.sph.equation import Equation', '']
    for sym in sorted(T.PRE_NEEDS):
        src.append('class Gen_%s(Equation):\n'
                   '    def loop(self, d_idx, d_q, %s):\n'
                   '        d_q[d_idx] += 1.0\n' % (sym, sym))
    with open(path, 'w') as f:
        f.write('\n'.join(src))
    spec = importlib.util.spec_from_file_location('c20_generated', path)
    mod = importlib.util.module_from_spec(spec)
    spec.loader.exec_module(mod)
    return [(sym, getattr(mod, 'Gen_' + sym)) for sym in sorted(T.PRE_NEEDS)]


def _generated_job(_):
    out = []
    ncase = 0
    for sym, cls in generated_equations():
        pd, ps = T.pre_closure([sym])
        full = {'dest': {'q'} | pd, 'src': set(ps)}
        inst = cls(dest='dest', sources=['src'])
        base = try_build([inst], [make_array(n, p) for n, p in full.items()])
        if base[0] != 'compiled':
            out.append(('failfast:generated-baseline',
                        'equation using only %s with all documented inputs '
                        'present rejected: %r' % (sym, base[1]),
                        dict(sym=sym)))
            continue
        for site, names in (('dest', pd), ('src', ps)):
            for name in sorted(names):
                props = {a: set(p) for a, p in full.items()}
                props[site].discard(name)
                r = try_build([cls(dest='dest', sources=['src'])],
                              [make_array(n, p) for n, p in props.items()])
                ncase += 1
                if r[0] == 'compiled':
                    out.append((
                        'failfast:precomputed-requirement-not-checked:%s' % (
                            'dest' if site == 'dest' else 'source'),
                        'user equation using %s, array %r lacking %r, was '
                        'accepted and reached compilation' % (sym, site, name),
                        dict(sym=sym, site=site, name=name)))
    return ncase, [], [], out


def run(ctx):
    from pysph.sph.equation import Equation
    from pysph.sph.integrator_step import IntegratorStep
    eqs = list(T.discover(Equation))
    sts = list(T.discover(IntegratorStep)) + sorted(generated_steppers())
    jobs = [('eq', eqs[i::32]) for i in range(32)]
    jobs += [('st', sts[i::4]) for i in range(4)]
    jobs += [('gen', None)]

    def disp(j):
        kind, payload = j
        if kind == 'eq':
            return _eq_job(payload)
        if kind == 'st':
            return _stepper_job(payload)
        return _generated_job(payload)
    res = map_jobs(disp, jobs, ctx.ncpu)
    viol = {}
    ncase = 0
    covered = []
    notcov = []
    for r in res:
        if isinstance(r, Crash):
            raise RuntimeError('worker crashed %r' % r)
        n, cov_, nc, out = r
        ncase += n
        covered += cov_
        notcov += nc
        for key, what, rep in out:
            viol.setdefault(key, (what, rep))
    vs = [Violation(k, w, rep) for k, (w, rep) in sorted(viol.items())]
    cov = dict(evaluations=ncase, distinct_nontrivial=len(covered),
               equation_classes=len(eqs), stepper_classes=len(sts),
               classes_covered=len(covered),
               not_covered=[list(x) for x in sorted(notcov)],
               exhaustive=True,
               samples=[dict(eq='pysph.sph.basic_equations.ContinuityEquation',
                             removed='u', site='dest', kind='precomputed '
                             '(VIJ)')],
               rule='every shipped Equation subclass (instantiated from a '
                    'generic value table; classes that cannot be '
                    'instantiated or whose complete baseline problem is '
                    'rejected are listed under not_covered) x every name it '
                    'needs explicitly (d_*/s_* arguments) or implicitly '
                    '(closure of precomputed symbols in loop) x removal '
                    'from the destination / from one of two sources, '
                    'alternating flat list / group / sub-group; + dest that '
                    'is its own source; + misspelt dest/source; every '
                    'shipped stepper (any number of stages: Euler/PEC/'
                    'TVD-RK3/PEFRL integrator chosen by stage count) and 10 '
                    'generated steppers (1-5 stages, each method needing a '
                    'property of its own) x every d_* name x first/later '
                    'array; '
                    '+ one generated equation per precomputed symbol')
    assumptions = ['reaching AccelerationEvalCythonHelper.compile counts as '
                   '"reached compilation"; nothing is compiled',
                   'the table of what each precomputed symbol needs is '
                   'written from docs/source/design/equations.rst, '
                   'independently of equation.precomputed_symbols']
    return Result('exploration', cov, assumptions, vs)


def replay(ctx, obj):
    if 'eq' in obj:
        n, c, nc, out = _eq_job([obj['eq']])
    elif 'stepper' in obj:
        n, c, nc, out = _stepper_job([obj['stepper']])
    else:
        n, c, nc, out = _generated_job(None)
    return dict(violates=bool(out), problems=[o[:2] for o in out[:5]])
