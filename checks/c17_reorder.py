"""C17 - spatial re-ordering is a pure permutation of whole particles.

E4a (placements) + E2 (reorder / update / move histories) on every neighbour
algorithm; arrays carry every C type, strided properties with distinct
components and ghost-tagged particles at the tail.  See DESIGN.md C17.
"""
import itertools

import numpy as np

from vlib.runner import Result, Violation
from vlib.pool import map_jobs, Crash
from vlib import nnps_util as U

H0 = U.H0
SUPPORTED = ('LinkedListNNPS', 'CellIndexingNNPS', 'ZOrderNNPS',
             'ExtendedZOrderNNPS', 'StratifiedSFCNNPS', 'OctreeNNPS',
             'CompressedOctreeNNPS')
ALL = ('DictBoxSortNNPS', 'BoxSortNNPS', 'LinkedListNNPS', 'SpatialHashNNPS',
       'ExtendedSpatialHashNNPS', 'CellIndexingNNPS', 'ZOrderNNPS',
       'ExtendedZOrderNNPS', 'StratifiedHashNNPS', 'StratifiedSFCNNPS',
       'OctreeNNPS', 'CompressedOctreeNNPS')


def decorate(pas, cfg, strided_first):
    """Add identity + typed + strided properties and ghost tags."""
    uid0 = 0
    for a, pa in enumerate(pas):
        n = pa.get_number_of_particles()
        uid = np.arange(uid0, uid0 + n, dtype=float)
        uid0 += n

        def add_strided():
            pa.add_property('s3', stride=3,
                            data=np.array([[u * 10 + 1, u * 10 + 2, u * 10 + 3]
                                           for u in uid]).ravel())
            pa.add_property('s2', type='int', stride=2,
                            data=np.array([[u * 7 + 1, u * 7 + 2]
                                           for u in uid]).ravel()
                            .astype(np.int32))
        if strided_first:
            add_strided()
        pa.add_property('uid', data=uid.copy())
        pa.add_property('fl', type='float', data=(uid + 0.5).astype(np.float32))
        pa.add_property('it', type='int', data=(uid * 3).astype(np.int32))
        pa.add_property('lg', type='long', data=(uid * 5).astype(np.int64))
        pa.add_property('un', type='unsigned int',
                        data=(uid * 2).astype(np.uint32))
        if not strided_first:
            add_strided()
        ng = cfg.get('ghosts', [0] * len(pas))[a]
        if ng and n:
            t = pa.get('tag', only_real_particles=False)
            # Remote (1) and Ghost (2) alternate; which comes first depends
            # on the array
            lo = max(0, n - ng)
            t[lo:] = [1 + ((k + a) % 2) for k in range(n - lo)]
            pa.align_particles()


def snapshot(pa):
    n = pa.get_number_of_particles()
    recs = []
    props = sorted(pa.properties)
    arrs = {p: pa.get(p, only_real_particles=False) for p in props}
    for i in range(n):
        r = []
        for p in props:
            s = pa.stride.get(p, 1)
            r.append((p, tuple(np.asarray(arrs[p][i * s:(i + 1) * s],
                                          dtype=float).tolist())))
        recs.append(tuple(r))
    return recs


def check_reorder(name, kw, cfg, ops, crumbfn=None):
    """Runs a history of ops on one NNPS object.  ops in {'reorder0',
    'reorder1', 'update', 'move'}.  Returns list of (kind, detail)."""
    from cyarray.api import LongArray
    pas = U.make_arrays(cfg)
    decorate(pas, cfg, cfg.get('strided_first', False))
    probs = []
    if crumbfn is not None:
        crumbfn('construct')
    nn = U.make_nnps(name, cfg['dim'], pas, kw)
    U.query_all(nn, pas)
    if crumbfn is not None:
        crumbfn('history')
    lat = U.lattice(cfg['dim'], 3)
    nev = 0
    stale = False
    for op in ops:
        if op.startswith('reorder'):
            ai = int(op[-1])
            if ai >= len(pas):
                continue
            pa = pas[ai]
            n = pa.get_number_of_particles()
            idx = LongArray()
            try:
                nn.get_spatially_ordered_indices(ai, idx)
            except NotImplementedError:
                if name in SUPPORTED:
                    probs.append(('not-implemented', name))
                return probs, nev
            nev += 1
            got = idx.get_npy_array()[:idx.length].tolist()
            if sorted(got) != list(range(n)):
                probs.append(('not-a-permutation', dict(array=ai, n=n,
                                                        indices=got)))
                return probs, nev      # applying it would read out of bounds
            before = snapshot(pa)
            nn.spatially_order_particles(ai)
            after = snapshot(pa)
            if sorted(before) != sorted(after):
                lost = [r for r in before if r not in after][:2]
                probs.append(('records-changed', dict(array=ai, lost=lost)))
                return probs, nev
            tags = pa.get('tag', only_real_particles=False).tolist()
            nl = sum(1 for t in tags if t == 0)
            if any(t != 0 for t in tags[:nl]) or \
                    pa.num_real_particles != nl:
                probs.append(('ghosts-in-real-range',
                              dict(array=ai, tags=tags,
                                   num_real=int(pa.num_real_particles))))
            stale = True
        elif op == 'update':
            nn.update_domain()
            nn.update()
            stale = False
            got = U.query_all(nn, pas)
            nev += 1
            # "again exact": the long-lived object must answer exactly like
            # a freshly built one on the same (re-ordered) arrays; whether
            # a fresh object is exact is C01's subject
            fresh = U.make_nnps(name, cfg['dim'], pas, kw)
            want = U.query_all(fresh, pas)
            for key in want:
                a = [sorted(l) for l in got[key]]
                b = [sorted(l) for l in want[key]]
                if a != b:
                    probs.append(('neighbours-after-update:stale',
                                  dict(pair=key, got=a[:4], fresh=b[:4])))
                    break
        elif op in ('grow', 'shrink'):
            # the particle count changes after the NNPS object was built
            pa = pas[0]
            n = pa.get_number_of_particles()
            if op == 'grow':
                pa.extend(2)
                for q, off in (('x', 0.41), ('y', 0.17), ('z', 0.0)):
                    a = pa.get(q, only_real_particles=False)
                    for j in (0, 1):
                        a[n + j] = (a[0] if n else 0.0) + off * (j + 1) * (
                            1 if (q == 'x' or cfg['dim'] > 1) else 0)
                h = pa.get('h', only_real_particles=False)
                h[n:] = h[0] if n else 0.5
                g = pa.get('gid', only_real_particles=False)
                g[n:] = [1000 + n, 1001 + n]
                pa.align_particles()
            elif n > 1:
                pa.remove_particles([n - 1])
        elif op == 'addprop':
            # properties created after the object (and a first re-ordering)
            # exist: they belong to the particles like any other
            for pa in pas:
                if 'late2' in pa.properties:
                    continue
                u = pa.get('uid', only_real_particles=False)
                pa.add_property('late2', stride=2, data=np.array(
                    [[v * 11 + 1, v * 11 + 2] for v in u]).ravel())
                pa.add_property('latei', type='int',
                                data=(u * 13).astype(np.int32))
        elif op == 'move':
            for a, pa in enumerate(pas):
                n = pa.get_number_of_particles()
                x = pa.get('x', only_real_particles=False)
                y = pa.get('y', only_real_particles=False)
                for i in range(n):
                    # shift by a particle dependent amount: changes cells
                    # without making particles coincide
                    x[i] += 0.3 * ((i + a) % 3) + 0.07 * i
                    if cfg['dim'] > 1:
                        y[i] -= 0.2 * ((i + 2 * a) % 2)
        if probs:
            break
    return probs, nev


HISTORIES = [
    ('reorder0', 'update'),
    ('reorder0', 'reorder1', 'update'),
    ('reorder0', 'update', 'reorder0', 'update'),
    ('move', 'update', 'reorder0', 'reorder1', 'update'),
    ('reorder1', 'update', 'move', 'update', 'reorder1', 'update'),
    ('grow', 'update', 'reorder0', 'reorder1', 'update'),
    ('reorder0', 'reorder1', 'update', 'addprop', 'move', 'update',
     'reorder0', 'reorder1', 'update'),
    ('shrink', 'update', 'reorder0', 'update', 'grow', 'update', 'reorder0',
     'update'),
]


def configs(thorough, seed):
    out = []
    # small placements (C01 lattice), one or two arrays, ghosts at the tail
    for dim, n, kmax in ((1, 6, 4), (2, 3, 4), (3, 2, 4)):
        lat = U.lattice(dim, n)
        for k in range(1, kmax + 1):
            mss = list(U.multisets(len(lat), k))
            if k == kmax and not thorough:
                mss = mss[seed % 2::2]
            for ms in mss:
                pts = [lat[i] for i in ms]
                for arr in ([0] * k, [i % 2 for i in range(k)]):
                    for gh in ([0, 0], [1, 0], [2, 1]):
                        for hp in ([H0] * k, [H0 * (1 + 2 * (i % 2))
                                              for i in range(k)]):
                            out.append(dict(dim=dim, pts=pts, h=hp,
                                            arr=arr, narr=2, ghosts=gh,
                                            strided_first=(len(out) % 2 == 0)))
    # larger blocks: many cells, arrays of different sizes
    for dim in (1, 2, 3):
        n = {1: 30, 2: 6, 3: 4}[dim]
        lat = U.lattice(dim, n)
        for gh in ([0, 0], [3, 2], [7, 0]):
            for sf in (False, True):
                arr = [0 if (i * 7 + i // 3) % 3 else 1
                       for i in range(len(lat))]
                out.append(dict(dim=dim, pts=lat,
                                h=[H0 * (1 + (i % 3)) for i in
                                   range(len(lat))],
                                arr=arr, narr=2, ghosts=gh, strided_first=sf))
    return out


def klass(cfg):
    t = []
    if any(cfg['ghosts']):
        t.append('with-ghosts')
    if len(set(cfg['arr'])) < 2:
        t.append('empty-array')
    return ','.join(t) if t else 'plain'


def _job(args):
    cfgs, hists, skip = args
    from checks.c01_nnps import crumb
    out = []
    nev = 0
    nh = 0
    for ci, cfg in enumerate(cfgs):
        for name in ALL:
            for kw in ({}, {'cache': True}):
                if name == 'DictBoxSortNNPS' and kw:
                    continue
                if [name, klass(cfg)] in skip:
                    continue
                for h in hists:
                    def cf(phase, name=name, cfg=cfg, kw=kw, h=h):
                        crumb(dict(ident=[name, klass(cfg)], cfg=cfg,
                                   kw=kw, hist=list(h), phase=phase))
                    try:
                        pr, n = check_reorder(name, kw, cfg, h, cf)
                    except Exception as e:  # noqa
                        pr, n = [('exception:%s' % type(e).__name__,
                                  repr(e))], 0
                    nev += n
                    nh += 1
                    for kind, det in pr[:1]:
                        out.append((name, kind, kw, det, cfg, list(h)))
                    if name not in SUPPORTED:
                        break
    return nev, nh, out


def run(ctx):
    from checks.c01_nnps import read_crumb, CRUMB_DIR
    import shutil
    shutil.rmtree(CRUMB_DIR, ignore_errors=True)
    cfgs = configs(ctx.thorough, ctx.seed)
    hists = HISTORIES if ctx.thorough else HISTORIES[:3] + \
        [HISTORIES[3 + ctx.seed % 2], HISTORIES[5 if ctx.seed % 2 == 0 else 7],
         HISTORIES[6]]
    chunk = max(10, len(cfgs) // (ctx.ncpu * 8))
    jobs = [cfgs[i:i + chunk] for i in range(0, len(cfgs), chunk)]
    viol = {}
    skip = []

    def add(name, kind, kw, det, cfg, h):
        key = 'reorder:%s:%s:%s' % (name, kind, klass(cfg))
        size = len(cfg['pts']) * 10 + len(h)
        if key not in viol or size < viol[key][0]:
            viol[key] = (size, '%s %s %r after %r' % (name, kind, det, h),
                         dict(algo=name, kw=kw, cfg=cfg, hist=h))
    pending = list(range(len(jobs)))
    nev = nh = 0
    not_exercised = set()
    rounds = 0
    while pending:
        rounds += 1
        if rounds > 100:
            raise RuntimeError('too many crash rounds')
        res = map_jobs(_job, [(jobs[i], hists, list(skip)) for i in pending],
                       ctx.ncpu, job_timeout=900)
        nxt = []
        for i, r in zip(pending, res):
            if isinstance(r, Crash):
                cr = read_crumb(r.pid)
                if cr is None:
                    raise RuntimeError('crash without breadcrumb %r' % r)
                if cr.get('phase') == 'construct':
                    # the algorithm cannot even be built / queried on these
                    # arrays: C01's finding, nothing to re-order here
                    not_exercised.add((cr['ident'][0], cr['ident'][1]))
                else:
                    add(cr['ident'][0], 'crash', cr['kw'], r.reason,
                        cr['cfg'], cr['hist'])
                if cr['ident'] not in skip:
                    skip.append(cr['ident'])
                nxt.append(i)
                continue
            a, b, out = r
            nev += a
            nh += b
            for name, kind, kw, det, cfg, h in out:
                add(name, kind, kw, det, cfg, h)
        pending = nxt
    import shutil as _sh
    _sh.rmtree(CRUMB_DIR, ignore_errors=True)
    vs = [Violation(k, w, rep) for k, (sz, w, rep) in sorted(viol.items())]
    cov = dict(states=len(cfgs) * len(ALL), transitions=nev,
               traces_validated_against_impl=nh, histories=nh,
               configurations=len(cfgs), algorithms=len(ALL),
               history_shapes=[list(h) for h in hists], exhaustive=True,
               not_exercised_construction_crashes=sorted(not_exercised),
               samples=[dict(cfg=cfgs[(ctx.seed * 17 + 40) % len(cfgs)],
                             history=list(hists[0]))],
               rule='all multisets of <=4 points on small lattices (1-D 6, '
                    '2-D 3x3, 3-D 2x2x2) x one/two arrays x ghost tails '
                    '{0,1,2} x two h patterns, plus larger blocks; every '
                    'algorithm (supported ones must give a permutation, the '
                    'others must raise NotImplementedError), cache on/off, '
                    'through each reorder/update/move history on one '
                    'long-lived NNPS object')
    assumptions = ['neighbour exactness after the following update is judged '
                   'against a freshly built object of the same class on the '
                   'same arrays (whether that is exact is C01)',
                   'which algorithms support re-ordering is decided by '
                   'whether get_spatially_ordered_indices raises '
                   'NotImplementedError; the seven documented ones must',
                   'histories longer than the listed shapes are not covered']
    return Result('model_checking', cov, assumptions, vs)


def replay(ctx, obj):
    cfg = obj['cfg']
    cfg['pts'] = [tuple(p) for p in cfg['pts']]
    pr, n = check_reorder(obj['algo'], obj['kw'], cfg, obj['hist'])
    return dict(violates=bool(pr), problems=pr[:3])
