"""C02 part (b): a bounded grammar of user-style equations.

Every program is the source text of an Equation subclass within the
documented language subset (docs/source/design/equations.rst): typed and
strided properties, constants, scalar instance attributes (float, int, bool),
declared ints and matrices, helper functions, t and dt, all seven hooks.
Programs are enumerated (not sampled), written to real source files (the
code generator reads the source), compiled by the real tool chain in packs
and compared with the reference interpreter on the same arrays.

Families
  S  precomputed symbols: one equation per documented pair symbol (and per
     adjacent pair of symbols) x every kernel x dim 1-3 x three wirings;
     every per-pair value is stored in its own slot (no accumulation).
  B  binary expressions: every ordered pair of terminals x {+,-,*,/} per
     hook (terminals: dest/source properties of every type and stride,
     constants, instance attributes, t, dt, XIJ, literals).
  F  feature templates: declared matrices and ints, nested loops, if/elif,
     while, helpers (scalar, list, nested), bool/int/float attributes,
     attribute changed after construction, typed writes, reduce, libm.
"""
import hashlib
import importlib.util
import itertools
import os
import re

import numpy as np

KERNEL_DIMS = [
    ('CubicSpline', (1, 2, 3)), ('WendlandQuinticC2_1D', (1,)),
    ('WendlandQuintic', (2, 3)), ('WendlandQuinticC4_1D', (1,)),
    ('WendlandQuinticC4', (2, 3)), ('WendlandQuinticC6_1D', (1,)),
    ('WendlandQuinticC6', (2, 3)), ('Gaussian', (1, 2, 3)),
    ('SuperGaussian', (1, 2, 3)), ('QuinticSpline', (1, 2, 3)),
]
SCALARS = ['HIJ', 'EPS', 'RHOIJ', 'RHOIJ1', 'R2IJ', 'RIJ', 'WIJ', 'WDP',
           'WI', 'WJ', 'WDASHI', 'WDASHJ', 'WDASHIJ', 'GHI', 'GHJ', 'GHIJ']
VECTORS = ['XIJ', 'VIJ', 'DWIJ', 'DWI', 'DWJ']
SYMBOLS = SCALARS + VECTORS
# symbols whose value involves the kernel (libm in some kernels; compared
# with a rounding tolerance), the others are arithmetic + sqrt: bit equal
KERNEL_SYMS = {'WIJ', 'WDP', 'WI', 'WJ', 'WDASHI', 'WDASHJ', 'WDASHIJ',
               'GHI', 'GHJ', 'GHIJ', 'DWIJ', 'DWI', 'DWJ'}
WIRINGS = [('a', ('b',)), ('a', ('a',)), ('b', ('a', 'b'))]
NSLOT = 16

HEADER = '''from math import sqrt, sin, cos, exp, log, atan2, floor, fabs, pow, pi
from compyle.api import declare
from pysph.sph.equation import Equation
from pysph.base.reduce_array import serial_reduce_array

M_PI = pi


def h_scale(x=1.0):
    return x*1.5 + 0.25


def h_trace(x=[1.0, 1.0], nx=1):
    i = declare('int')
    result = 0.0
    for i in range(nx):
        result += x[i]
    return result


def h_nested(x=1.0, y=1.0):
    return h_scale(x) - y*h_scale(y)


class UBase(Equation):
    def __init__(self, dest, sources, fa=1.375, ia=3, fb=2.25, flag=True):
        self.fa = fa
        self.ia = ia
        self.fb = fb
        self.flag = flag
        # derived, "private" attributes: instance attributes like any other
        self._fa2 = fa*fa
        self._n = ia + 1
        super(UBase, self).__init__(dest, sources)

    def _get_helpers_(self):
        return [h_scale, h_trace, h_nested]

'''

IDENT = re.compile(r'\b([ds]_[a-z0-9]+|%s|t|dt|NBRS|N_NBRS|SPH_KERNEL)\b'
                   % '|'.join(SYMBOLS))


def args_of(body, hook):
    """Argument list of a hook from the identifiers its body uses."""
    found = []
    for m in IDENT.finditer(body):
        if m.group(1) not in found:
            found.append(m.group(1))
    args = ['d_idx']
    if hook == 'loop' and 's_idx' in found:
        args.append('s_idx')
    for a in found:
        if a in ('s_idx', 'd_idx'):
            continue
        args.append(a)
    return args


def method(hook, body_lines, decls=()):
    body = '\n'.join(body_lines)
    args = args_of(body, hook)
    out = ['    def %s(self, %s):' % (hook, ', '.join(args))]
    for d in decls:
        out.append('        ' + d)
    for ln in body_lines:
        out.append('        ' + ln)
    return '\n'.join(out) + '\n'


def klass(name, methods, base='UBase'):
    return 'class %s(%s):\n%s\n' % (name, base, '\n'.join(methods))


# ---------------------------------------------------------------------------
# family S
# ---------------------------------------------------------------------------
def sym_class(name, syms):
    lines = []
    slot = 0
    for s in syms:
        if s in VECTORS:
            for c in range(3):
                lines.append('d_o[d_idx*%d + 3*s_idx + %d] = %s[%d]' % (
                    NSLOT * 2, c + slot, s, c))
            slot += NSLOT
        else:
            lines.append('d_o[d_idx*%d + s_idx + %d] = %s' % (
                NSLOT * 2, slot, s))
            slot += NSLOT
    return klass(name, [method('loop', lines)])


def family_s(pairs):
    """Returns list of (class name, source, tolerance class, symbols).
    `pairs`: True -> also adjacent pairs (ring)."""
    out = []
    for s in SYMBOLS:
        out.append(('S_%s' % s, sym_class('S_%s' % s, [s]),
                    s in KERNEL_SYMS, (s,)))
    if pairs:
        for a, b in pairs:
            nm = 'S_%s_%s' % (a, b)
            out.append((nm, sym_class(nm, [a, b]),
                        bool({a, b} & KERNEL_SYMS), (a, b)))
    return out


# ---------------------------------------------------------------------------
# family B
# ---------------------------------------------------------------------------
D_TERMS = [('d_m[d_idx]', 'f'), ('d_n[d_idx]', 'i'),
           ('d_k3[d_idx*3 + 1]', 'f'), ('d_q2[d_idx*2 + 1]', 'i'),
           ('d_c1[0]', 'f'), ('d_c3[2]', 'f'), ('self.fa', 'f'),
           ('self.ia', 'i'), ('self.fb', 'f'), ('t', 'f'), ('dt', 'f'),
           ('0.75', 'f')]
S_TERMS = [('s_m[s_idx]', 'f'), ('s_n[s_idx]', 'i'),
           ('s_k3[s_idx*3 + 2]', 'f'), ('s_q2[s_idx*2]', 'i'),
           ('s_c1[0]', 'f'), ('s_c3[1]', 'f'), ('XIJ[1]', 'f')]
SP_TERMS = [('s_m[1]', 'f'), ('s_c1[0]', 'f'), ('s_c3[1]', 'f'),
            ('s_n[2]', 'i')]
SA_TERMS = [('s_m[NBRS[0]]', 'f'), ('s_n[NBRS[N_NBRS - 1]]', 'i'),
            ('s_k3[NBRS[0]*3 + 2]', 'f'), ('s_c3[1]', 'f'),
            ('N_NBRS', 'i')]
OPS = ['+', '-', '*', '/']


def exprs(terms):
    out = []
    for (a, ta), (b, tb) in itertools.product(terms, terms):
        for op in OPS:
            if op == '/' and ta == 'i' and tb == 'i':
                continue     # int/int division is outside the subset
            out.append('%s %s %s' % (a, op, b))
    return out


def family_b():
    out = []
    spec = [('initialize', D_TERMS, '='), ('post_loop', D_TERMS, '='),
            ('loop', D_TERMS + S_TERMS, '+='),
            ('initialize_pair', D_TERMS[:6] + SP_TERMS, '+='),
            ('loop_all', D_TERMS[:6] + SA_TERMS, '+=')]
    for hook, terms, asg in spec:
        ex = exprs(terms)
        for ci in range(0, len(ex), NSLOT):
            chunk = ex[ci:ci + NSLOT]
            lines = ['d_o[d_idx*%d + %d] %s %s' % (NSLOT, j, asg, e)
                     for j, e in enumerate(chunk)]
            if hook == 'loop_all':
                lines = ['if N_NBRS > 0:'] + ['    ' + x for x in lines]
            nm = 'B_%s_%d' % (hook, ci // NSLOT)
            out.append((nm, klass(nm, [method(hook, lines)]), False,
                        (hook,)))
    return out


# ---------------------------------------------------------------------------
# family F
# ---------------------------------------------------------------------------
def family_f():
    F = []

    def add(name, methods, tol=False, kw=None, post=None):
        F.append((name, klass(name, methods), tol, ('feature',), kw, post))

    add('F_matrix', [method('loop', [
        'for i in range(3):',
        '    vec[i] = XIJ[i]*s_m[s_idx] + i',
        '    vec1[i] = d_k3[d_idx*3 + i]',
        'for i in range(3):',
        '    for j in range(3):',
        '        mat[i][j] = vec[i]*vec1[j] - j',
        'for i in range(3):',
        '    d_o[d_idx*16 + i] += vec[i]',
        '    for j in range(3):',
        '        d_o[d_idx*16 + 3 + 3*i + j] += mat[i][j]',
        'd_o[d_idx*16 + 12] += h_trace(vec, 3)',
        'd_o[d_idx*16 + 13] += h_trace(vec1, 2)',
    ], decls=['vec, vec1 = declare("matrix(3)", 2)',
              'mat = declare("matrix((3,3))")',
              'i, j = declare("int", 2)'])])
    add('F_matrix22', [method('post_loop', [
        'mm[0][0] = d_m[d_idx]',
        'mm[0][1] = d_k3[d_idx*3]',
        'mm[1][0] = d_k3[d_idx*3 + 1]',
        'mm[1][1] = d_k3[d_idx*3 + 2]',
        'd_o[d_idx*16] = mm[0][0]*mm[1][1] - mm[0][1]*mm[1][0]',
    ], decls=['mm = declare("matrix((2,2))")'])])
    add('F_ifelse', [method('loop', [
        'if s_m[s_idx] > d_m[d_idx]:',
        '    d_o[d_idx*16] += 1.0',
        'elif s_n[s_idx] == d_n[d_idx]:',
        '    d_o[d_idx*16 + 1] += 2.0',
        'else:',
        '    d_o[d_idx*16 + 2] += s_m[s_idx]',
        'if s_m[s_idx] > 1.0 and d_m[d_idx] < 1.2:',
        '    d_o[d_idx*16 + 3] += 0.5',
        'if s_n[s_idx] != 1 or XIJ[0] > 0.0:',
        '    d_o[d_idx*16 + 4] -= 0.25',
        'if not (XIJ[0] >= 0.0):',
        '    d_o[d_idx*16 + 5] += -XIJ[0]',
        'if self.flag:',
        '    d_o[d_idx*16 + 6] += 1.0',
        'else:',
        '    d_o[d_idx*16 + 6] -= 1.0',
    ])])
    add('F_flag_false', [method('initialize', [
        'if self.flag:',
        '    d_o[d_idx*16] = 1.0',
        'else:',
        '    d_o[d_idx*16] = -1.0',
    ])], kw=dict(flag=False))
    add('F_while', [method('initialize', [
        'i = 0',
        'acc = 0.0',
        'while i < self.ia:',
        '    acc += (self.fb + i)*d_m[d_idx]',
        '    i += 1',
        'd_o[d_idx*16] = acc',
        'for j in range(1, self.ia):',
        '    d_o[d_idx*16 + j] = d_k3[d_idx*3 + j]*j',
    ], decls=['i, j = declare("int", 2)'])])
    add('F_helpers', [method('loop', [
        'd_o[d_idx*16] += h_scale(s_m[s_idx])',
        'd_o[d_idx*16 + 1] += h_nested(s_m[s_idx], d_m[d_idx])',
        'd_o[d_idx*16 + 2] += h_trace(XIJ, 3)',
        'd_o[d_idx*16 + 3] += h_scale(self.fa)*dt + t',
    ])])
    add('F_private_attr', [method('initialize', [
        'd_o[d_idx*16] = self._fa2',
        'd_o[d_idx*16 + 1] = self._n',
    ]), method('loop', [
        'd_o[d_idx*16 + 2] += self._fa2*s_m[s_idx] + self._n',
    ])])
    add('F_attr_changed', [method('initialize', [
        'd_o[d_idx*16] = self.fa',
        'd_o[d_idx*16 + 1] = self.ia',
        'd_o[d_idx*16 + 2] = self.fb',
    ])], post='eq.fa = 9.5; eq.ia = 7; eq.fb = -1.25')
    add('F_typed_writes', [method('loop', [
        'd_oi[d_idx*4] += s_n[s_idx]',
        'd_oi[d_idx*4 + 1] = d_gid[d_idx]',
        'd_oi[d_idx*4 + 2] = s_tag[s_idx] + d_pid[d_idx]',
        'd_oi[d_idx*4 + 3] += 1',
        'd_o[d_idx*16] += s_gid[s_idx]',
        'd_o[d_idx*16 + 1] += d_n[d_idx]*0.5',
    ])])
    add('F_constants_write', [method('post_loop', [
        'd_c3[1] = d_c3[1] + d_m[d_idx]',
        'd_o[d_idx*16] = d_c3[1]',
    ])])
    add('F_all_hooks', [
        method('initialize', ['d_o[d_idx*16] = t + 1.0']),
        method('initialize_pair', ['d_o[d_idx*16 + 1] += s_c1[0] + dt']),
        method('loop_all', [
            'acc = 0.0',
            'for i in range(N_NBRS):',
            '    s_idx = NBRS[i]',
            '    acc += s_m[s_idx]*(i + 1)',
            'd_o[d_idx*16 + 2] += acc',
        ], decls=['i = declare("int")', 's_idx = declare("long")']),
        method('loop', ['d_o[d_idx*16 + 3] = d_o[d_idx*16 + 3]*0.5 + '
                        's_m[s_idx]']),
        method('post_loop', ['d_o[d_idx*16 + 4] = d_o[d_idx*16]*2.0 + '
                             'd_o[d_idx*16 + 3]']),
        '    def reduce(self, dst, t, dt):\n'
        '        dst.c1[0] = serial_reduce_array(dst.m, "sum") + t\n'
        '        dst.c3[0] = serial_reduce_array(dst.m, "max") - dt\n',
    ])
    add('F_loop_all_count', [method('loop_all', [
        'd_o[d_idx*16] = N_NBRS + 1.0',
        'd_o[d_idx*16 + 1] += 0.5 + dt',
    ])])
    add('F_loop_all_kernel', [method('loop_all', [
        'acc = 0.0',
        'for i in range(N_NBRS):',
        '    s_idx = NBRS[i]',
        '    xij[0] = d_x[d_idx] - s_x[s_idx]',
        '    xij[1] = d_y[d_idx] - s_y[s_idx]',
        '    xij[2] = d_z[d_idx] - s_z[s_idx]',
        '    rij = sqrt(xij[0]*xij[0] + xij[1]*xij[1] + xij[2]*xij[2])',
        '    hij = 0.5*(s_h[s_idx] + d_h[d_idx])',
        '    d_o[d_idx*16 + s_idx] = SPH_KERNEL.kernel(xij, rij, hij)',
        '    SPH_KERNEL.gradient(xij, rij, hij, grad)',
        '    d_o[d_idx*16 + 5 + s_idx] = grad[0]',
        '    d_o[d_idx*16 + 10 + s_idx] = grad[1]',
    ], decls=['i = declare("int")', 's_idx = declare("long")',
              'xij, grad = declare("matrix(3)", 2)'])], tol=True)
    add('F_libm', [method('loop', [
        'd_o[d_idx*16] += sqrt(s_m[s_idx])',
        'd_o[d_idx*16 + 1] += sin(s_m[s_idx]) + cos(d_m[d_idx])',
        'd_o[d_idx*16 + 2] += exp(-s_m[s_idx])',
        'd_o[d_idx*16 + 3] += log(s_m[s_idx])',
        'd_o[d_idx*16 + 4] += atan2(XIJ[1], XIJ[0] + 0.01)',
        'd_o[d_idx*16 + 5] += pow(s_m[s_idx], 1.5)',
        'd_o[d_idx*16 + 6] += fabs(XIJ[0])',
        'd_o[d_idx*16 + 7] += floor(s_m[s_idx]*3.0)',
        'd_o[d_idx*16 + 8] += M_PI*s_m[s_idx]',
        'd_o[d_idx*16 + 9] += abs(XIJ[1])',
        'd_o[d_idx*16 + 10] += max(s_m[s_idx], d_m[d_idx])',
        'd_o[d_idx*16 + 11] += min(s_m[s_idx], d_m[d_idx])',
        'd_o[d_idx*16 + 12] += s_m[s_idx]**2',
    ])], tol=True)
    add('F_vij_rhoij', [method('loop', [
        'd_o[d_idx*16] += VIJ[0]*XIJ[0] + VIJ[1]*XIJ[1] + VIJ[2]*XIJ[2]',
        'd_o[d_idx*16 + 1] += R2IJ/(RIJ + HIJ)',
    ])])
    # three non-commuting equations used together in one group (family M)
    add('M_src', [
        method('initialize', ['d_o[d_idx*16] = d_o[d_idx*16]*2.0 + 1.0']),
        method('loop', ['d_o[d_idx*16] = d_o[d_idx*16]*1.5 + s_m[s_idx]']),
        method('post_loop', ['d_o[d_idx*16] = d_o[d_idx*16]*3.0 + 1.0'])])
    add('M_pairsrc', [
        method('initialize', ['d_o[d_idx*16] = d_o[d_idx*16] - 0.5']),
        method('initialize_pair', ['d_o[d_idx*16] = d_o[d_idx*16]*1.25 + '
                                   's_c1[0]']),
        method('loop', ['d_o[d_idx*16] = d_o[d_idx*16]*0.5 - s_k3[s_idx*3]']),
        method('post_loop', ['d_o[d_idx*16] = d_o[d_idx*16]*d_o[d_idx*16]'])])
    add('M_nosrc', [
        method('initialize', ['d_o[d_idx*16] = d_o[d_idx*16]*d_m[d_idx] + '
                              '5.0']),
        method('post_loop', ['d_o[d_idx*16] = 1.0/(1.0 + d_o[d_idx*16]*'
                             'd_o[d_idx*16])'])])
    return F


M_SOURCES = {'M_src': [('b',), ('a',), ('a', 'b')],
             'M_pairsrc': [('b',), ('b', 'a')], 'M_nosrc': [None]}


def m_groups():
    """All ordered selections of 2 and 3 distinct equations out of
    {M_src, M_pairsrc, M_nosrc} x their source lists, for destination a."""
    out = []
    names = sorted(M_SOURCES)
    for r in (2, 3):
        for perm in itertools.permutations(names, r):
            for srcs in itertools.product(*[M_SOURCES[n] for n in perm]):
                out.append(list(zip(perm, srcs)))
    return out


# ---------------------------------------------------------------------------
# source files and arrays
# ---------------------------------------------------------------------------
def write_module(classes_src):
    src = HEADER + '\n'.join(classes_src)
    d = os.path.join(os.path.expanduser('~'), 'verif_gen')
    os.makedirs(d, exist_ok=True)
    hsh = hashlib.md5(src.encode()).hexdigest()[:12]
    name = 'c02u_%s' % hsh
    path = os.path.join(d, name + '.py')
    if not os.path.exists(path):
        tmp = path + '.%d' % os.getpid()
        with open(tmp, 'w') as f:
            f.write(src)
        os.replace(tmp, path)
    spec = importlib.util.spec_from_file_location(name, path)
    mod = importlib.util.module_from_spec(spec)
    import sys
    sys.modules[name] = mod
    spec.loader.exec_module(mod)
    return mod


def _val(array, prop, i, j=0):
    hsh = int(hashlib.md5(('%s|%s' % (array, prop)).encode())
              .hexdigest()[:6], 16)
    return 0.55 + ((hsh % 997) / 997.0) * 0.9 + 0.0137 * ((3 * i + 5 * j +
                                                            hsh) % 17)


def make_arrays(dim, nslot=NSLOT):
    from pysph.base.particle_array import ParticleArray
    # a[3] is isolated: no neighbour in b, only itself in a (a destination
    # particle without neighbours still gets initialize, loop_all, post_loop)
    pos = {'a': [(0.0, 0.0, 0.0), (0.31, 0.07, 0.11), (0.12, 0.41, 0.23),
                 (3.9, 0.0, 0.0), (0.21, 0.18, 0.3)],
           'b': [(0.17, 0.13, 0.19), (0.43, 0.29, 0.02), (0.05, 0.26, 0.14),
                 (0.36, 0.46, 0.27), (0.24, 0.02, 0.09)]}
    out = []
    for nm in ('a', 'b'):
        pts = pos[nm]
        n = len(pts)
        pa = ParticleArray(name=nm)
        for ax, p in enumerate('xyz'):
            pa.add_property(p, data=np.array(
                [q[ax] if ax < dim else 0.0 for q in pts]))
        pa.add_property('h', data=np.array(
            [0.21 + 0.017 * ((i + (nm == 'b')) % 4) for i in range(n)]))
        for p in ('m', 'rho', 'u', 'v', 'w', 'p'):
            pa.add_property(p, data=np.array([_val(nm, p, i)
                                              for i in range(n)]))
        pa.add_property('n', type='int', data=np.array(
            [1 + (i + (nm == 'b')) % 3 for i in range(n)]))
        pa.add_property('k3', stride=3, data=np.array(
            [_val(nm, 'k3', i, j) for i in range(n) for j in range(3)]))
        pa.add_property('q2', type='int', stride=2, data=np.array(
            [2 + (i + 2 * j + (nm == 'b')) % 4 for i in range(n)
             for j in range(2)]))
        pa.add_property('o', stride=nslot)
        pa.add_property('oi', type='int', stride=4)
        pa.add_constant('c1', [_val(nm, 'c1', 0)])
        pa.add_constant('c3', [_val(nm, 'c3', 0, j) for j in range(3)])
        pa.gid[:] = np.arange(n, dtype=np.uint32) + (7 if nm == 'b' else 3)
        pa.pid[:] = 2 if nm == 'b' else 1
        tags = np.array([0] * (n - 1) + [2], dtype=np.int32)
        pa.get('tag', only_real_particles=False)[:] = tags
        pa.align_particles()
        out.append(pa)
    return out


# ---------------------------------------------------------------------------
# packs
# ---------------------------------------------------------------------------
def s_pairs(thorough, seed):
    if thorough:
        return [(a, b) for a in SYMBOLS for b in SYMBOLS if a < b]
    ring = [(SYMBOLS[i], SYMBOLS[(i + 1 + seed % 5) % len(SYMBOLS)])
            for i in range(len(SYMBOLS))]
    return [(a, b) for a, b in ring if a != b]


def packs(thorough, seed):
    """List of pack descriptions: dict(kind, kernel, dim, ...)."""
    out = []
    kd = [(k, d) for k, dims in KERNEL_DIMS for d in dims]
    for i, (k, d) in enumerate(kd):
        # singles everywhere; pairs for a rotating third of the (kernel,
        # dim) pairs in quick, all in thorough
        with_pairs = thorough or (i % 7 == seed % 7)
        if thorough:
            # all 210 symbol pairs, in three modules per (kernel, dim): one
            # module with all of them needs several GB to compile
            for c in range(3):
                out.append(dict(kind='S', kernel=k, dim=d, pairs=True,
                                thorough=True, seed=seed, chunk=c))
            continue
        out.append(dict(kind='S', kernel=k, dim=d, pairs=with_pairs,
                        thorough=thorough, seed=seed))
    nb = len(family_b())
    per = 40
    for i in range(0, nb, per):
        k, d = (kd[(seed + i // per) % len(kd)] if not thorough
                else ('CubicSpline', 2))
        out.append(dict(kind='B', kernel=k, dim=d, lo=i, hi=i + per))
    dims = (1, 2, 3) if thorough else (1 + seed % 3,)
    for d in dims:
        out.append(dict(kind='F', kernel='CubicSpline', dim=d))
        out.append(dict(kind='F', kernel='Gaussian', dim=d))
    return out


def programs_of(pack):
    if pack['kind'] == 'S':
        prs = s_pairs(pack['thorough'], pack['seed']) if pack['pairs'] \
            else None
        if prs is not None and 'chunk' in pack:
            prs = prs[pack['chunk']::3]
        return [(n, s, tol, info, None, None)
                for n, s, tol, info in family_s(prs)]
    if pack['kind'] == 'B':
        return [(n, s, tol, info, None, None)
                for n, s, tol, info in family_b()[pack['lo']:pack['hi']]]
    return family_f()


def run_pack(pack):
    """Compiles and runs one pack; returns dict(programs, probs, errors)."""
    from compyle.config import get_config
    get_config().use_openmp = False
    import pysph.base.kernels as K
    from pysph.base.nnps import LinkedListNNPS
    from pysph.sph.equation import Group
    from pysph.sph.acceleration_eval import AccelerationEval
    from pysph.sph.sph_compiler import SPHCompiler
    from vlib.ref.sph_interp import Interp, Prop
    from checks.c02_equations import snapshot, restore, nop_class
    # x/0.0 is inf/nan in the generated code (cdivision): let the reference
    # do the same instead of raising
    Prop.C_DIVISION = True
    np.seterr(all='ignore')

    progs = programs_of(pack)
    mod = write_module([p[1] for p in progs])
    kernel = getattr(K, pack['kernel'])(dim=pack['dim'])
    nslot = NSLOT * 2 if pack['kind'] == 'S' else NSLOT
    wirings = WIRINGS if pack['kind'] != 'B' else WIRINGS[:1] + WIRINGS[2:]
    sides = {}
    labels = []
    for side in ('reference', 'compiled'):
        from vlib.build import reset_group_counter
        reset_group_counter()
        arrays = make_arrays(pack['dim'], nslot)
        init = snapshot(arrays)
        results = []
        nop = nop_class()
        groups = []
        labels = []
        for name, src, tol, info, kw, post in progs:
            for dest, sources in wirings:
                eq = getattr(mod, name)(dest=dest, sources=list(sources),
                                        **(kw or {}))
                if post:
                    exec(post, dict(eq=eq))
                groups.append(Group(equations=[eq], real=True))
                labels.append((name, dest, sources, tol))

                def boundary(lbl=len(labels) - 1):
                    results.append((lbl, snapshot(arrays)))
                    restore(arrays, init)
                groups.append(Group(
                    equations=[nop(dest='a', sources=None)], pre=boundary))
        if pack['kind'] == 'F':
            for spec in m_groups():
                eqs = [getattr(mod, n)(dest='a', sources=(
                    list(sr) if sr else None)) for n, sr in spec]
                groups.append(Group(equations=eqs, real=True))
                labels.append(('M:' + '+'.join(
                    '%s(%s)' % (n, ','.join(sr or ())) for n, sr in spec),
                    'a', (), False))

                def boundary(lbl=len(labels) - 1):
                    results.append((lbl, snapshot(arrays)))
                    restore(arrays, init)
                groups.append(Group(
                    equations=[nop(dest='a', sources=None)], pre=boundary))
        nn = LinkedListNNPS(dim=pack['dim'], particles=arrays,
                            radius_scale=kernel.radius_scale)
        if side == 'compiled':
            # the evaluator is built on a decoy set of arrays (same names
            # and properties, other values in every property and constant)
            # and then handed the real ones: everything it reads or writes
            # afterwards must be the real arrays
            decoy = make_arrays(pack['dim'], nslot)
            for pa in decoy:
                for cn in pa.constants:
                    v = pa.get_carray(cn).get_npy_array()
                    v[:] = 2.0 * v + 1.0
                for pn in ('m', 'rho', 'u', 'v', 'w', 'p', 'h'):
                    if pn in pa.properties:
                        v = pa.get(pn, only_real_particles=False)
                        v[:] = 1.5 * v + 0.25
            ae = AccelerationEval(decoy, groups, kernel)
            SPHCompiler(ae, None).compile()
            ae.update_particle_arrays(arrays)
            ae.set_nnps(nn)
            ae.compute(0.3, 0.07)
            sides[side] = dict(results)
        else:
            res = {}
            err = {}
            for gi in range(len(labels)):
                del results[:]
                restore(arrays, init)
                try:
                    Interp(arrays, groups[2 * gi:2 * gi + 2], kernel,
                           nn).compute(0.3, 0.07)
                    res[gi] = results[0][1]
                except Exception as ex:  # noqa
                    err[gi] = '%s: %s' % (type(ex).__name__, str(ex)[:200])
            sides[side] = res
            sides['err'] = err
    # scale for kernel-valued symbols
    hmin = 0.21
    peak = kernel.kernel([0.0, 0.0, 0.0], 0.0, hmin)
    probs = []
    nvals = 0
    for gi, (name, dest, sources, tol) in enumerate(labels):
        if gi in sides['err']:
            probs.append((name, 'reference-error', '%s dest=%s sources=%s: '
                          'the reference interpreter could not run the '
                          'program: %s' % (name, dest, list(sources),
                                           sides['err'][gi])))
            continue
        a, b = sides['compiled'][gi], sides['reference'][gi]
        for key in a:
            x, y = a[key], b[key]
            nvals += x.size
            if x.shape != y.shape:
                same = False
            elif tol and x.dtype.kind == 'f':
                with np.errstate(all='ignore'):
                    same = np.allclose(x, y, rtol=1e-12,
                                       atol=1e-13 * peak / hmin,
                                       equal_nan=True)
            else:
                same = np.array_equal(x, y, equal_nan=(x.dtype.kind == 'f'))
            if not same:
                if x.shape == y.shape:
                    idx = int(np.argmax(~np.isclose(x, y, rtol=0, atol=0,
                                                    equal_nan=True)))
                    det = 'compiled %r reference %r at flat index %d' % (
                        x.ravel()[idx].item(), y.ravel()[idx].item(), idx)
                else:
                    det = 'shape %r vs %r' % (x.shape, y.shape)
                probs.append((name, 'differs', '%s (kernel %s dim %d, '
                              'dest=%s sources=%s): %s differs: %s' % (
                                  name, pack['kernel'], pack['dim'], dest,
                                  list(sources), key, det)))
                break
    return dict(programs=len(labels), values=nvals, probs=probs,
                classes=len(progs))
