"""C06 - a particle array stays coherent under any sequence of operations.

E2: breadth-first search over operation histories on real ParticleArray
objects (state = history, rebuilt by replay), deduplicated on the complete
public implementation state; a record-list reference model is compared in
every state.  See DESIGN.md section 4, C06.
"""
import pickle
import time

import numpy as np

from vlib.runner import Result, Violation

NPT = {'double': np.float64, 'float': np.float32, 'int': np.int32,
       'long': np.int64, 'unsigned int': np.uint32}
LOCAL, REMOTE, GHOST = 0, 1, 2


def conv(ctype, v):
    return np.array(v).astype(NPT[ctype]).item()


# ---------------------------------------------------------------------------
# reference model: a list of records + meta data
# ---------------------------------------------------------------------------
class Model(object):
    def __init__(self, name=''):
        self.name = name
        self.meta = {}        # prop -> [ctype, stride, default]
        self.recs = []        # list of dict prop -> tuple
        self.consts = {}      # name -> tuple
        self.output = []
        self.aligned = True
        for p, t, d in (('tag', 'int', 0), ('pid', 'int', 0),
                        ('gid', 'unsigned int', 4294967295)):
            self.meta[p] = [t, 1, d]

    def copy(self):
        m = Model(self.name)
        m.meta = {k: list(v) for k, v in self.meta.items()}
        m.recs = [dict(r) for r in self.recs]
        m.consts = dict(self.consts)
        m.output = list(self.output)
        m.aligned = self.aligned
        return m

    def default_rec(self):
        return {p: (conv(t, d),) * s for p, (t, s, d) in self.meta.items()}

    def add_prop(self, name, ctype='double', default=None, data=None,
                 stride=1):
        n = len(self.recs)
        if name in self.meta:
            # only offered with identical type and stride
            if default is not None:
                self.meta[name][2] = default
            ctype = self.meta[name][0]
            stride = self.meta[name][1]
        else:
            self.meta[name] = [ctype, stride, 0 if default is None else default]
            for r in self.recs:
                r[name] = (conv(ctype, self.meta[name][2]),) * stride
        if data is not None:
            data = list(data)
            if n == 0 and data:
                k = len(data) // stride
                self.recs = [self.default_rec() for i in range(k)]
                n = k
            for i, r in enumerate(self.recs):
                r[name] = tuple(conv(ctype, v)
                                for v in data[i * stride:(i + 1) * stride])

    def new_recs(self, k, given):
        out = []
        for i in range(k):
            r = self.default_rec()
            for p, vals in given.items():
                t, s, d = self.meta[p]
                r[p] = tuple(conv(t, v) for v in vals[i * s:(i + 1) * s])
            out.append(r)
        return out

    def canon(self):
        return sorted(repr(sorted(r.items())) for r in self.recs)


def snapshot(pa):
    """Complete public implementation state of a ParticleArray."""
    props = {}
    for p in sorted(pa.properties):
        a = pa.properties[p]
        props[p] = (a.get_c_type(), tuple(a.get_npy_array().tolist()))
    consts = {c: (pa.constants[c].get_c_type(),
                  tuple(pa.constants[c].get_npy_array().tolist()))
              for c in sorted(pa.constants)}
    return (tuple(props.items()), tuple(sorted(pa.stride.items())),
            tuple(sorted((k, repr(v)) for k, v in pa.default_values.items())),
            int(pa.num_real_particles), tuple(sorted(pa.output_property_arrays)),
            tuple(consts.items()))


class Mismatch(Exception):
    def __init__(self, key, what):
        Exception.__init__(self, what)
        self.key = key
        self.what = what


def compare(pa, m, aligned_required, who='A'):
    """Invariants of the statement, evaluated on pa against model m."""
    props = pa.properties
    if 'tag' not in props:
        raise Mismatch('no-tag', '%s: tag property missing' % who)
    n = props['tag'].length
    if set(props) != set(m.meta):
        raise Mismatch('prop-set', '%s: properties %s != model %s' % (
            who, sorted(props), sorted(m.meta)))
    for p, (t, s, d) in sorted(m.meta.items()):
        a = props[p]
        if a.length != n * s:
            raise Mismatch('length:%s' % ('strided' if s > 1 else 'scalar'),
                           '%s: property %s holds %d values for %d particles x '
                           'stride %d' % (who, p, a.length, n, s))
        if a.get_c_type() != t:
            raise Mismatch('ctype', '%s: property %s has C type %s, model %s'
                           % (who, p, a.get_c_type(), t))
        if pa.stride.get(p, 1) != s:
            raise Mismatch('stride-entry', '%s: stride[%s]=%r model %d' % (
                who, p, pa.stride.get(p, 1), s))
        if p not in pa.default_values:
            raise Mismatch('default-missing', '%s: no default for %s'
                           % (who, p))
        if conv(t, pa.default_values[p]) != conv(t, d):
            raise Mismatch('default-value', '%s: default[%s]=%r model %r' % (
                who, p, pa.default_values[p], d))
    stale = sorted(set(pa.stride) - set(props))
    if stale:
        raise Mismatch('stale-stride', '%s: stride has entries %s for removed '
                       'properties' % (who, stale))
    stale = sorted(set(pa.default_values) - set(props))
    if stale:
        raise Mismatch('stale-default', '%s: default_values has entries %s for '
                       'removed properties' % (who, stale))
    if len(m.recs) != n:
        raise Mismatch('count', '%s: %d particles, model %d' % (who, n,
                                                                 len(m.recs)))
    arrs = {p: props[p].get_npy_array().tolist() for p in props}
    recs = []
    for i in range(n):
        recs.append({p: tuple(arrs[p][i * m.meta[p][1]:(i + 1) * m.meta[p][1]])
                     for p in arrs})
    got = sorted(repr(sorted(r.items())) for r in recs)
    if got != m.canon():
        raise Mismatch('records', '%s: particle records differ from model: '
                       'impl %s model %s' % (who, got, m.canon()))
    for c, v in m.consts.items():
        if c not in pa.constants:
            raise Mismatch('const-missing', '%s: constant %s lost' % (who, c))
        if tuple(pa.constants[c].get_npy_array().tolist()) != v:
            raise Mismatch('const-changed', '%s: constant %s = %r model %r' % (
                who, c, pa.constants[c].get_npy_array().tolist(), v))
    if set(pa.constants) != set(m.consts):
        raise Mismatch('const-set', '%s: constants %s model %s' % (
            who, sorted(pa.constants), sorted(m.consts)))
    if sorted(pa.output_property_arrays) != sorted(m.output):
        raise Mismatch('output-list', '%s: output arrays %s model %s' % (
            who, sorted(pa.output_property_arrays), sorted(m.output)))
    stale = sorted(set(pa.output_property_arrays) - set(props))
    if stale:
        raise Mismatch('stale-output', '%s: output arrays name removed '
                       'properties %s' % (who, stale))
    if aligned_required:
        tags = arrs['tag']
        nl = sum(1 for t in tags if t == LOCAL)
        if pa.num_real_particles != nl:
            raise Mismatch('num-real', '%s: num_real_particles=%d but %d Local'
                           % (who, pa.num_real_particles, nl))
        if any(t != LOCAL for t in tags[:nl]):
            raise Mismatch('not-aligned', '%s: tags %s after alignment' % (
                who, tags))
        # accessor agreement
        for p in ('x',):
            if p in props:
                s = m.meta[p][1]
                if len(pa.get(p)) != nl * s or \
                        len(pa.get(p, only_real_particles=False)) != n * s:
                    raise Mismatch('get-length', '%s: get(%s) lengths' % (
                        who, p))
        d = pa.get_property_arrays(all=True, only_real=False)
        for p in d:
            if len(d[p]) != n * m.meta[p][1]:
                raise Mismatch('get_property_arrays', '%s: %s' % (who, p))
    # sync the model's order with the implementation's (order is
    # implementation defined; the statement is about records)
    m.recs = recs


# ---------------------------------------------------------------------------
# world = two arrays (A: main, B: secondary) + their models
# ---------------------------------------------------------------------------
INIT = ('empty', 'local3', 'mixed4')


def make_world(init):
    from pysph.base.particle_array import ParticleArray
    A = ParticleArray(name='A')
    mA = Model('A')
    spec = [('x', 'double', 0, 1), ('uid', 'double', -1.0, 1),
            ('f', 'float', 1.5, 1), ('i', 'int', 7, 1), ('l', 'long', -3, 1),
            ('u', 'unsigned int', 9, 1), ('s3', 'double', 0.25, 3),
            ('s2', 'int', -1, 2), ('x0', 'double', 0, 1)]
    for (p, t, d, s) in spec:
        A.add_property(p, type=t, default=d, stride=s)
        mA.add_prop(p, t, d, None, s)
    A.add_constant('c1', [3.5])
    A.add_constant('c4', [1., 2., 3., 4.])
    mA.consts = {'c1': (3.5,), 'c4': (1., 2., 3., 4.)}
    n = {'empty': 0, 'local3': 3, 'mixed4': 4}[init]
    if n:
        tags = [0] * n if init == 'local3' else [0, 2, 0, 1]
        given = dict(
            x=[10. + k for k in range(n)], uid=[float(k) for k in range(n)],
            f=[0.5 + k for k in range(n)], i=[20 + k for k in range(n)],
            l=[30 + k for k in range(n)], u=[40 + k for k in range(n)],
            s3=[100. + k for k in range(3 * n)],
            s2=[200 + k for k in range(2 * n)], tag=tags)
        A.add_particles(**given)
        mA.recs.extend(mA.new_recs(n, given))
    A.set_output_arrays(['x', 'uid'])
    mA.output = ['x', 'uid']
    # B: same properties minus s2/i, plus e2 (strided) and a different default
    B = ParticleArray(name='B')
    mB = Model('B')
    for (p, t, d, s) in [('x', 'double', 0, 1), ('uid', 'double', -2.0, 1),
                         ('f', 'float', 2.5, 1), ('s3', 'double', 0.75, 3),
                         ('e2', 'double', 6.0, 2), ('l', 'long', 0, 1),
                         ('u', 'unsigned int', 1, 1), ('x0', 'double', 0, 1)]:
        B.add_property(p, type=t, default=d, stride=s)
        mB.add_prop(p, t, d, None, s)
    givenB = dict(x=[50., 51.], uid=[500., 501.], s3=[1., 2., 3., 4., 5., 6.],
                  e2=[7., 8., 9., 10.], tag=[0, 2], f=[3.5, 4.5], l=[5, 6])
    B.add_particles(**givenB)
    mB.recs.extend(mB.new_recs(2, givenB))
    B.add_constant('cb', [8.0, 9.0])
    mB.consts = {'cb': (8.0, 9.0)}
    return [A, B], [mA, mB]


class Op(object):
    def __init__(self, name, enabled, apply, aligns=True):
        self.name = name
        self.enabled = enabled
        self.apply = apply      # apply(world, models, k) may replace world[i]
        self.aligns = aligns


def _idx(sel, n):
    return {'first': [0], 'last': [n - 1], 'firstlast': [0, n - 1],
            'all': list(range(n)), 'none': [], 'mid': [n // 2],
            'lastfirst': [n - 1, 0],
            # unsorted, as a LongArray: the swap-with-last removal scheme
            # depends on the indices being sorted first
            'unsorted': [n - 1, 1, n - 2] if n >= 4 else [n - 1, 0]}[sel]


def build_ops():
    ops = []

    def op(name, aligns=True, enabled=lambda w, m: True):
        def deco(f):
            ops.append(Op(name, enabled, f, aligns))
            return f
        return deco

    nA = lambda w, m: len(m[0].recs)
    has = lambda p: (lambda w, m: p in m[0].meta)
    hasnt = lambda p: (lambda w, m: p not in m[0].meta and
                       p not in m[0].consts)

    # -- add_particles ------------------------------------------------------
    @op('add1_all')
    def _(w, m, k):
        A, M = w[0], m[0]
        given = {}
        for p, (t, s, d) in M.meta.items():
            if p in ('pid', 'gid'):
                continue
            if p == 'tag':
                given[p] = [0]
            else:
                given[p] = [1000 + 10 * k + j for j in range(s)]
        A.add_particles(**given)
        M.recs.extend(M.new_recs(1, given))

    @op('add2_subset_mixed_tags', enabled=lambda w, m: 'x' in m[0].meta)
    def _(w, m, k):
        A, M = w[0], m[0]
        given = dict(x=[2000. + k, 2001. + k], tag=[2, 0])
        if 's3' in M.meta and M.meta['s3'][1] == 3:
            given['s3'] = [2100. + k + j for j in range(6)]
        A.add_particles(**given)
        M.recs.extend(M.new_recs(2, given))

    @op('add2_x_only', enabled=lambda w, m: 'x' in m[0].meta)
    def _(w, m, k):
        # no tag given: the new particles carry the default tag
        A, M = w[0], m[0]
        given = dict(x=[3000. + k, 3001. + k])
        A.add_particles(**given)
        M.recs.extend(M.new_recs(2, given))

    @op('redeclare_tag_default_ghost', enabled=lambda w, m: nA(w, m) == 0)
    def _(w, m, k):
        # an (empty) array whose default tag is not Local
        w[0].add_property('tag', type='int', default=GHOST)
        m[0].add_prop('tag', 'int', GHOST, None, 1)

    @op('add1_ghost_tagonly')
    def _(w, m, k):
        A, M = w[0], m[0]
        given = dict(tag=[2])
        A.add_particles(**given)
        M.recs.extend(M.new_recs(1, given))

    # -- remove_particles ---------------------------------------------------
    for sel in ('first', 'last', 'firstlast', 'all', 'none', 'mid',
                'lastfirst', 'unsorted'):
        def mk(sel):
            def f(w, m, k):
                A, M = w[0], m[0]
                n = len(M.recs)
                idx = _idx(sel, n)
                if sel in ('mid', 'unsorted'):
                    from cyarray.api import LongArray
                    la = LongArray(len(idx))
                    la.set_data(np.array(idx, dtype=np.int64))
                    A.remove_particles(la)
                else:
                    A.remove_particles(idx)
                M.recs = [r for i, r in enumerate(M.recs)
                          if i not in set(idx)]
            return f
        en = (lambda w, m: True) if sel == 'none' else \
            ((lambda w, m: len(m[0].recs) >= 2) if sel in (
                'firstlast', 'mid', 'lastfirst', 'unsorted')
             else (lambda w, m: len(m[0].recs) >= 1))
        ops.append(Op('remove_' + sel, en, mk(sel)))

    for tag in (LOCAL, GHOST):
        def mk(tag):
            def f(w, m, k):
                A, M = w[0], m[0]
                A.remove_tagged_particles(tag)
                M.recs = [r for r in M.recs if r['tag'] != (tag,)]
            return f
        ops.append(Op('remove_tagged_%d' % tag, lambda w, m: True, mk(tag)))

    # -- extract_particles --------------------------------------------------
    def scribble(pa):
        """Overwrites every constant and property of an array derived from
        another one (clone, extraction, copy): the array it was derived from
        is compared with its model after the transition, so shared storage
        shows up as a change nobody asked for."""
        for cn in pa.constants:
            a = pa.constants[cn].get_npy_array()
            a[:] = a + 17
        for pn in pa.properties:
            if pn in ('tag', 'pid', 'gid'):
                continue
            a = pa.properties[pn].get_npy_array()
            if len(a):
                a[:] = a + 3

    def check_new(pa, mm, who):
        compare(pa, mm, True, who)
        scribble(pa)

    @op('extract_first_new_allprops', enabled=lambda w, m: nA(w, m) >= 1)
    def _(w, m, k):
        A, M = w[0], m[0]
        r = A.extract_particles([0])
        mm = M.copy()
        mm.recs = [dict(M.recs[0])]
        check_new(r, mm, 'extract->new')

    @op('extract_lastfirst_new_subset',
        enabled=lambda w, m: nA(w, m) >= 2 and 's3' in m[0].meta and
        'x' in m[0].meta)
    def _(w, m, k):
        A, M = w[0], m[0]
        n = len(M.recs)
        props = ['x', 's3']
        r = A.extract_particles([n - 1, 0], props=props)
        mm = Model('A')
        mm.consts = dict(M.consts)
        for p in props:
            mm.meta[p] = list(M.meta[p])
        mm.output = [p for p in M.output if p in props]
        for i in (n - 1, 0):
            rec = mm.default_rec()
            for p in props:
                rec[p] = M.recs[i][p]
            mm.recs.append(rec)
        check_new(r, mm, 'extract->new(subset)')

    @op('extract_last_into_B',
        enabled=lambda w, m: nA(w, m) >= 1 and
        all(p in m[1].meta and m[1].meta[p][:2] == m[0].meta[p][:2]
            for p in ('x', 'uid', 's3', 'f') if p in m[0].meta) and
        all(p in m[0].meta for p in ('x', 'uid', 's3', 'f')))
    def _(w, m, k):
        A, B = w
        M, MB = m
        n = len(M.recs)
        props = ['x', 'uid', 's3', 'f', 'tag']
        r = A.extract_particles([n - 1], dest_array=B, props=props)
        assert r is B
        rec = MB.default_rec()
        for p in props:
            rec[p] = M.recs[n - 1][p]
        MB.recs.append(rec)

    # -- append_parray ------------------------------------------------------
    @op('append_B',
        enabled=lambda w, m: all(
            m[0].meta[p][:2] == m[1].meta[p][:2]
            for p in m[1].meta if p in m[0].meta))
    def _(w, m, k):
        A, B = w
        M, MB = m
        A.append_parray(B)
        if not MB.recs:
            return
        for p, (t, s, d) in MB.meta.items():
            if p not in M.meta:
                M.add_prop(p, t, d, None, s)
        for rb in MB.recs:
            rec = M.default_rec()
            for p in MB.meta:
                rec[p] = tuple(conv(M.meta[p][0], v) for v in rb[p])
            M.recs.append(rec)

    @op('append_empty_clone')
    def _(w, m, k):
        A = w[0]
        A.append_parray(A.empty_clone())

    # -- extend / resize ----------------------------------------------------
    for cnt in (1, 2):
        def mk(cnt):
            def f(w, m, k):
                A, M = w[0], m[0]
                A.extend(cnt)
                M.recs.extend(M.new_recs(cnt, {}))
                A.align_particles()
            return f
        ops.append(Op('extend%d_align' % cnt, lambda w, m: True, mk(cnt)))

    @op('extend1_noalign', aligns=False)
    def _(w, m, k):
        A, M = w[0], m[0]
        A.extend(1)
        M.recs.extend(M.new_recs(1, {}))

    @op('shrink1_align', enabled=lambda w, m: nA(w, m) >= 1)
    def _(w, m, k):
        A, M = w[0], m[0]
        n = len(M.recs)
        A.resize(n - 1)
        A.align_particles()
        M.recs = M.recs[:n - 1]

    # -- add_property -------------------------------------------------------
    @op('addprop_new_double', enabled=hasnt('np1'))
    def _(w, m, k):
        w[0].add_property('np1')
        m[0].add_prop('np1')

    @op('addprop_new_int_stride2_default', enabled=hasnt('np2'))
    def _(w, m, k):
        w[0].add_property('np2', type='int', default=5, stride=2)
        m[0].add_prop('np2', 'int', 5, None, 2)

    @op('addprop_new_stride3_with_data', enabled=hasnt('np3'), aligns=False)
    def _(w, m, k):
        n = len(m[0].recs)
        data = [3000. + k + j for j in range(3 * n)]
        w[0].add_property('np3', data=np.array(data), stride=3, default=1.0)
        m[0].add_prop('np3', 'double', 1.0, data if n else None, 3)

    @op('addprop_new_float_scalar_data', enabled=hasnt('np4'))
    def _(w, m, k):
        n = len(m[0].recs)
        w[0].add_property('np4', type='float', data=2.25)
        m[0].add_prop('np4', 'float', 0, [2.25] * n if n else None, 1)

    @op('addprop_existing_x_with_data',
        enabled=lambda w, m: 'x' in m[0].meta and nA(w, m) >= 1)
    def _(w, m, k):
        n = len(m[0].recs)
        data = [4000. + k + j for j in range(n)]
        w[0].add_property('x', data=data)
        m[0].add_prop('x', 'double', None, data, 1)

    # (add_property documents that particles created through it are not
    #  aligned: with a default tag that is not Local the op is not offered)
    @op('addprop_data_on_empty', aligns=True,
        enabled=lambda w, m: nA(w, m) == 0 and hasnt('np5')(w, m) and
        m[0].meta['tag'][2] == LOCAL)
    def _(w, m, k):
        data = [1., 2.]
        w[0].add_property('np5', data=data)
        m[0].add_prop('np5', 'double', None, data, 1)

    @op('re_add_s3_stride1', enabled=hasnt('s3'))
    def _(w, m, k):
        w[0].add_property('s3')
        m[0].add_prop('s3', 'double', None, None, 1)

    @op('re_add_s3_stride3', enabled=hasnt('s3'))
    def _(w, m, k):
        w[0].add_property('s3', stride=3, default=0.5)
        m[0].add_prop('s3', 'double', 0.5, None, 3)

    # an existing property declared again with another default: values
    # stay, particles created from now on get the new default
    @op('redeclare_x_default', enabled=has('x'))
    def _(w, m, k):
        w[0].add_property('x', default=2.5)
        m[0].add_prop('x', 'double', 2.5, None, 1)

    @op('redeclare_s2_default', enabled=has('s2'))
    def _(w, m, k):
        st = m[0].meta['s2'][1]
        w[0].add_property('s2', type=m[0].meta['s2'][0], stride=st, default=7)
        m[0].add_prop('s2', m[0].meta['s2'][0], 7, None, st)

    @op('re_add_i_as_long', enabled=hasnt('i'))
    def _(w, m, k):
        w[0].add_property('i', type='long', default=4)
        m[0].add_prop('i', 'long', 4, None, 1)

    # -- remove_property ----------------------------------------------------
    for p in ('s3', 'i', 'x', 'uid', 's2'):
        def mk(p):
            def f(w, m, k):
                A, M = w[0], m[0]
                A.remove_property(p)
                del M.meta[p]
                for r in M.recs:
                    del r[p]
                if p in M.output:
                    M.output.remove(p)
            return f
        ops.append(Op('rmprop_' + p, has(p), mk(p)))

    # -- constants -----------------------------------------------------------
    @op('add_constant', enabled=hasnt('c9'))
    def _(w, m, k):
        w[0].add_constant('c9', [1.5, 2.5, 3.5])
        m[0].consts['c9'] = (1.5, 2.5, 3.5)

    # -- retag + align -------------------------------------------------------
    for sel, tag in (('first', GHOST), ('last', LOCAL), ('all', REMOTE),
                     ('mid', GHOST)):
        def mk(sel, tag):
            def f(w, m, k):
                A, M = w[0], m[0]
                n = len(M.recs)
                t = A.get('tag', only_real_particles=False)
                for i in _idx(sel, n):
                    t[i] = tag
                    M.recs[i]['tag'] = (tag,)
                A.align_particles()
            return f
        ops.append(Op('retag_%s_%d_align' % (sel, tag),
                      lambda w, m: len(m[0].recs) >= 1, mk(sel, tag)))

    @op('set_tag_api_first_ghost', enabled=lambda w, m: nA(w, m) >= 1)
    def _(w, m, k):
        from cyarray.api import LongArray
        A, M = w[0], m[0]
        la = LongArray(1)
        la.set_data(np.array([0], dtype=np.int64))
        A.set_tag(GHOST, la)
        M.recs[0]['tag'] = (GHOST,)
        A.align_particles()

    # -- whole-array helpers ---------------------------------------------------
    @op('empty_clone_check')
    def _(w, m, k):
        A, M = w[0], m[0]
        c = A.empty_clone()
        mm = M.copy()
        mm.recs = []
        compare(c, mm, True, 'empty_clone')
        scribble(c)

    @op('empty_clone_subset_check', enabled=lambda w, m: 'x' in m[0].meta)
    def _(w, m, k):
        A, M = w[0], m[0]
        props = ['x'] + (['s2'] if 's2' in M.meta else [])
        c = A.empty_clone(props=props)
        mm = Model('A')
        mm.consts = dict(M.consts)
        for p in props:
            mm.meta[p] = list(M.meta[p])
        mm.output = [p for p in M.output if p in props]
        compare(c, mm, True, 'empty_clone(props)')
        scribble(c)

    @op('ensure_properties_from_B')
    def _(w, m, k):
        A, B = w
        M, MB = m
        A.ensure_properties(B)
        for p, (t, s, d) in MB.meta.items():
            if p not in M.meta:
                M.add_prop(p, t, d, None, s)

    @op('ensure_properties_subset_from_B')
    def _(w, m, k):
        A, B = w
        M, MB = m
        A.ensure_properties(B, ['e2', 'x'])
        for p in ('e2', 'x'):
            t, s, d = MB.meta[p]
            if p not in M.meta:
                M.add_prop(p, t, d, None, s)

    @op('copy_properties_from_clone_of_B', aligns=False,
        enabled=lambda w, m: len(m[0].recs) == len(m[1].recs) and
        all(m[0].meta[p][:2] == m[1].meta[p][:2]
            for p in m[1].meta if p in m[0].meta))
    def _(w, m, k):
        A, B = w
        M, MB = m
        A.copy_properties(B)
        for i, rb in enumerate(MB.recs):
            for p in MB.meta:
                if p in M.meta:
                    M.recs[i][p] = rb[p]

    @op('copy_properties_from_B_at_1', aligns=False,
        enabled=lambda w, m: len(m[0].recs) >= 1 + len(m[1].recs) and
        len(m[1].recs) >= 1 and
        all(m[0].meta[p][:2] == m[1].meta[p][:2]
            for p in m[1].meta if p in m[0].meta))
    def _(w, m, k):
        A, B = w
        M, MB = m
        A.copy_properties(B, 1, 1 + len(MB.recs))
        for i, rb in enumerate(MB.recs):
            for p in MB.meta:
                if p in M.meta:
                    M.recs[1 + i][p] = rb[p]

    @op('copy_over_x_to_x0', aligns=False,
        enabled=lambda w, m: 'x' in m[0].meta and 'x0' in m[0].meta)
    def _(w, m, k):
        w[0].copy_over_properties({'x': 'x0'})
        for r in m[0].recs:
            r['x0'] = r['x']

    @op('set_to_zero_s3_x', aligns=False,
        enabled=lambda w, m: 's3' in m[0].meta and 'x' in m[0].meta)
    def _(w, m, k):
        w[0].set_to_zero(['s3', 'x'])
        for r in m[0].recs:
            r['s3'] = (0.0,) * m[0].meta['s3'][1]
            r['x'] = (0.0,)

    @op('set_pid', aligns=False)
    def _(w, m, k):
        w[0].set_pid(3)
        for r in m[0].recs:
            r['pid'] = (3,)

    @op('set_x_and_s2', aligns=False,
        enabled=lambda w, m: 'x' in m[0].meta and 's2' in m[0].meta and
        nA(w, m) >= 1)
    def _(w, m, k):
        A, M = w[0], m[0]
        n = len(M.recs)
        xs = [5000. + k + j for j in range(n)]
        s2 = [6000 + k + j for j in range(2 * n)]
        A.set(x=xs, s2=s2)
        for i, r in enumerate(M.recs):
            r['x'] = (xs[i],)
            r['s2'] = tuple(s2[2 * i:2 * i + 2])

    @op('set_output_arrays', aligns=False,
        enabled=lambda w, m: 's3' in m[0].meta and 'f' in m[0].meta)
    def _(w, m, k):
        w[0].set_output_arrays(['s3', 'f'])
        m[0].output = ['s3', 'f']

    @op('add_output_arrays', aligns=False, enabled=has('i'))
    def _(w, m, k):
        w[0].add_output_arrays(['i'])
        m[0].output = sorted(set(m[0].output) | {'i'})

    @op('shallow_copy_check', aligns=False)
    def _(w, m, k):
        import copy
        A, M = w[0], m[0]
        c = copy.copy(A)
        mm = M.copy()
        mm.output = []
        compare(c, mm, False, 'copy.copy')
        scribble(c)

    @op('pickle_roundtrip', aligns=False)
    def _(w, m, k):
        A, M = w[0], m[0]
        w[0] = pickle.loads(pickle.dumps(A))
        # the pickle format does not carry the output list
        M.output = []

    return ops


OPS = None
# ops after which the documentation promises alignment
ALIGNING = {'extend1_align', 'extend2_align', 'shrink1_align',
            'retag_first_2_align', 'retag_last_0_align', 'retag_all_1_align',
            'retag_mid_2_align', 'set_tag_api_first_ghost'}
# ops that align when they add / remove at least one particle
ALIGNING_IF_CHANGED = {'add1_all', 'add2_subset_mixed_tags', 'add2_x_only',
                       'add1_ghost_tagonly', 'remove_first', 'remove_last',
                       'remove_firstlast', 'remove_all', 'remove_mid',
                       'remove_tagged_0', 'remove_tagged_2', 'append_B'}
# ops after which alignment is explicitly the caller's job
BREAKING = {'extend1_noalign', 'copy_properties_from_clone_of_B',
            'copy_properties_from_B_at_1'}


def ops_table():
    global OPS
    if OPS is None:
        OPS = build_ops()
    return OPS


def replay_history(init, hist, stop_on_error=True):
    """Returns (world, models, err) where err = (index, key, what)."""
    ops = {o.name: o for o in ops_table()}
    w, m = make_world(init)
    aligned = True
    for who, pa, mm in (('A', w[0], m[0]), ('B', w[1], m[1])):
        compare(pa, mm, True, who)
    for k, name in enumerate(hist):
        o = ops[name]
        try:
            if not o.enabled(w, m):
                return w, m, (k, 'disabled', 'op %s not enabled' % name)
            n0 = len(m[0].recs)
            o.apply(w, m, k)
            if name in ALIGNING:
                aligned = True
            elif name in ALIGNING_IF_CHANGED:
                if len(m[0].recs) != n0:
                    aligned = True
            elif name in BREAKING:
                aligned = False
            compare(w[0], m[0], aligned, 'A')
            compare(w[1], m[1], True, 'B')
        except Mismatch as e:
            return w, m, (k, e.key, e.what)
        except Exception as e:  # noqa
            return w, m, (k, 'exception:%s' % type(e).__name__,
                          'op %s raised %r' % (name, e))
    return w, m, None


def _expand(args):
    """Expand one frontier history by every enabled op."""
    init, hist = args
    out = []
    ops = ops_table()
    w, m, err = replay_history(init, hist)
    if err is not None:
        # this history agreed with the model when it was first explored and
        # does not when it is replayed: the implementation is not a function
        # of the operations (uninitialised storage)
        k, ekey, what = err
        return hist[:-1], [(hist[-1], None,
                            (k, 'not-reproducible:' + ekey,
                             'a history that agreed with the model when '
                             'first run differs when replayed: ' + what))]
    enabled = [o.name for o in ops if o.enabled(w, m)]
    for name in enabled:
        h2 = hist + [name]
        w2, m2, err = replay_history(init, h2)
        if err is not None:
            out.append((name, None, err))
        else:
            key = hash((snapshot(w2[0]), snapshot(w2[1])))
            out.append((name, key, None))
    return hist, out


def _single(args):
    init, h2 = args
    w2, m2, err = replay_history(init, h2)
    if err is not None:
        return (h2[-1], None, err)
    return (h2[-1], hash((snapshot(w2[0]), snapshot(w2[1]))), None)


def run(ctx):
    from vlib.pool import map_jobs, Crash
    depth = 4 if ctx.thorough else 3
    cap_states = 400000 if ctx.thorough else 60000
    ops = ops_table()
    viols = {}
    states = 0
    transitions = 0
    per_init = {}
    capped = False
    samples = []
    opcount = {}

    def record(init, hist, name, key, err, seen, nxt):
        nonlocal transitions
        transitions += 1
        opcount[name] = opcount.get(name, 0) + 1
        if err is not None:
            k, ekey, what = err
            sig = 'parray:%s:%s' % (name, ekey)
            h2 = hist + [name]
            if sig not in viols or len(h2) < len(viols[sig][1]):
                viols[sig] = (what, h2, init)
            return
        if key not in seen:
            seen.add(key)
            nxt.append(hist + [name])

    for init in INIT:
        w, m, err = replay_history(init, [])
        assert err is None, err
        seen = {hash((snapshot(w[0]), snapshot(w[1])))}
        frontier = [[]]
        maxd = 0
        for d in range(1, depth + 1):
            nxt = []
            jobs = [(init, h) for h in frontier]
            res = map_jobs(_expand, jobs, ctx.ncpu, job_timeout=60)
            crashed = []
            for job, r in zip(jobs, res):
                if isinstance(r, Crash):
                    crashed.append(job)
                    continue
                hist, out = r
                for name, key, err in out:
                    record(init, hist, name, key, err, seen, nxt)
            if crashed:
                # attribute the crash to a single transition: one process
                # per (history, op)
                singles = []
                for (ini, h) in crashed:
                    for o in ops:
                        singles.append((ini, h + [o.name]))
                res2 = map_jobs(_single, singles, ctx.ncpu, job_timeout=20)
                for (ini, h2), r in zip(singles, res2):
                    if isinstance(r, Crash):
                        record(init, h2[:-1], h2[-1], None,
                               (len(h2) - 1, 'crash',
                                'interpreter crashed: %s' % r.reason),
                               seen, nxt)
                    else:
                        name, key, err = r
                        if err is not None and err[1] == 'disabled':
                            continue
                        record(init, h2[:-1], name, key, err, seen, nxt)
            if nxt:
                maxd = d
            if len(seen) > cap_states and d < depth:
                capped = True
                nxt = nxt[:cap_states // 10]
            frontier = nxt
            if len(samples) < 4 and nxt:
                samples.append({'init': init,
                                'history': nxt[(ctx.seed * 7919) % len(nxt)]})
        per_init[init] = dict(states=len(seen), max_depth=maxd)
        states += len(seen)
    vs = [Violation(sig, '%s (init=%s, history=%s)' % (what, init, hist),
                    dict(init=init, history=hist))
          for sig, (what, hist, init) in sorted(viols.items())]
    cov = dict(states=states, transitions=transitions,
               traces_validated_against_impl=transitions,
               depth=depth, operations=len(ops), per_initial_array=per_init,
               exhaustive=not capped, capped=capped,
               ops_never_enabled=sorted(o.name for o in ops
                                        if o.name not in opcount),
               samples=samples,
               rule='all histories of <=depth operations from 3 initial '
                    'arrays over the %d-operation alphabet; states '
                    'deduplicated on the complete public implementation '
                    'state of both arrays (property data in order, C types, '
                    'stride, default_values, num_real_particles, output '
                    'list, constants); reference record-list model compared '
                    'after every transition' % len(ops))
    assumptions = [
        'only argument combinations the documentation allows are offered '
        '(equal-length data, existing property re-added only with its own '
        'type and stride)',
        'order of particles is implementation defined: records are compared '
        'as multisets and the model adopts the implementation order after '
        'each step',
        'pickle is not required to preserve the output-array list',
        'histories deeper than the stated depth are not covered',
    ]
    return Result('model_checking', cov, assumptions, vs)


def replay(ctx, obj):
    w, m, err = replay_history(obj['init'], obj['history'])
    return dict(violates=err is not None, error=err,
                history=obj['history'])
