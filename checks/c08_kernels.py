"""C08 - every SPH kernel is normalised, compactly supported, self-consistent.

E4a on a numeric lattice that enters every branch of every kernel on both
sides of every piece boundary.  See DESIGN.md section 4, C08.
"""
import math

import numpy as np

from vlib.runner import Result, Violation
from vlib.pool import map_jobs, Crash

# kernel name -> (dims, interior piece boundaries in q, is polynomial,
#                 monotone & non-negative)
KERNELS = {
    'CubicSpline': ((1, 2, 3), (1.0,), True, True),
    'WendlandQuinticC2_1D': ((1,), (), True, True),
    'WendlandQuintic': ((2, 3), (), True, True),
    'WendlandQuinticC4_1D': ((1,), (), True, True),
    'WendlandQuinticC4': ((2, 3), (), True, True),
    'WendlandQuinticC6_1D': ((1,), (), True, True),
    'WendlandQuinticC6': ((2, 3), (), True, True),
    'Gaussian': ((1, 2, 3), (), False, True),
    'SuperGaussian': ((1, 2, 3), (), False, False),
    'QuinticSpline': ((1, 2, 3), (1.0, 2.0), True, True),
}
H_POW2 = [2.0 ** -20, 2.0 ** -10, 0.125, 1.0, 8.0, 2.0 ** 10, 2.0 ** 20]
H_DEC = [1e-6, 1e-3, 0.1, 10.0, 1e3, 1e6]
# thorough tier only
H_POW2_DEEP = [2.0 ** -30, 2.0 ** -15, 2.0 ** -5, 0.5, 2.0, 2.0 ** 5,
               2.0 ** 15, 2.0 ** 30]
H_DEC_DEEP = [1e-9, 3e-5, 0.3, 0.7, 3.0, 7.0, 1e2, 1e9]
EPS = np.finfo(float).eps


def directions(dim):
    out = []
    for v in [(1, 0, 0), (0, 1, 0), (0, 0, 1), (-1, 0, 0), (1, 1, 0),
              (1, -1, 0), (0, 1, 1), (1, 0, 1), (1, 1, 1), (-1, 1, 1),
              (1, -1, 1), (1, 1, -1), (0, -1, 0), (0, 0, -1)]:
        if all(v[a] == 0 for a in range(dim, 3)):
            n = math.sqrt(sum(c * c for c in v))
            out.append(tuple(c / n for c in v))
    return out


def q_lattice(rs, bounds, npiece):
    """q values: 0, boundaries and their neighbours, equispaced interior
    points of every piece, points beyond the support."""
    edges = [0.0] + list(bounds) + [rs]
    qs = {0.0}
    for a, b in zip(edges[:-1], edges[1:]):
        for k in range(1, npiece):
            qs.add(a + (b - a) * k / npiece)
    for b in list(bounds) + [rs]:
        qs.add(b)
        qs.add(float(np.nextafter(b, 0)))
        qs.add(float(np.nextafter(b, 10)))
        qs.add(b * (1 - 2.0 ** -40))
        qs.add(b * (1 + 2.0 ** -40))
    for extra in (rs * 1.01, rs * 1.5, rs * 7.0):
        qs.add(extra)
    return sorted(qs)


def shell(dim):
    return {1: 2.0, 2: 2 * math.pi, 3: 4 * math.pi}[dim]


def gauss_legendre_integral(f, a, b, nsub=16, order=20):
    x, w = np.polynomial.legendre.leggauss(order)
    tot = 0.0
    for k in range(nsub):
        lo = a + (b - a) * k / nsub
        hi = a + (b - a) * (k + 1) / nsub
        xm = 0.5 * (lo + hi)
        xr = 0.5 * (hi - lo)
        tot += xr * sum(wi * f(xm + xr * xi) for xi, wi in zip(x, w))
    return tot


def truncated_reference(name, dim):
    """Analytic value of the integral over the support of the DOCUMENTED
    formula (independent of the code)."""
    if name == 'Gaussian':
        if dim == 1:
            return math.erf(3.0)
        if dim == 2:
            return 1.0 - math.exp(-9.0)
        return math.erf(3.0) - 2.0 / math.sqrt(math.pi) * 3.0 * math.exp(-9.0)
    if name == 'SuperGaussian':
        d = dim

        def f(q):
            return math.exp(-q * q) * (d / 2.0 + 1.0 - q * q) / \
                math.pi ** (d / 2.0) * shell(d) * q ** (d - 1)
        return gauss_legendre_integral(f, 0.0, 3.0, 32, 20)
    return 1.0


def check_kernel(name, dim, npiece, deep=False):
    import pysph.base.kernels as K
    dims, bounds, poly, mono = KERNELS[name]
    k = getattr(K, name)(dim=dim)
    rs = k.radius_scale
    probs = []
    nev = 0

    def add(kind, what):
        probs.append((kind, what))

    def W(r, h, u=(1.0, 0.0, 0.0)):
        return k.kernel([r * u[0], r * u[1], r * u[2]], r, h)

    qs = q_lattice(rs, bounds, npiece)
    dirs = directions(dim)
    hs_pow2 = H_POW2 + (H_POW2_DEEP if deep else [])
    for h in hs_pow2 + H_DEC + (H_DEC_DEEP if deep else []):
        pow2 = h in hs_pow2
        fac_h = k.fac / h ** dim
        S = abs(W(0.0, h))             # peak value: the rounding scale
        tolS = 256 * EPS * S
        prevW = None
        prevq = None
        for q in qs:
            r = q * h
            qq = r * (1.0 / h)          # q as the code computes it
            w = W(r, h)
            dw = k.dwdq(r, h)
            nev += 2
            # support
            beyond = (qq >= rs) if pow2 else (q >= rs * (1 + 1e-12))
            if beyond:
                g = [1.0, 1.0, 1.0]
                k.gradient([r, 0.0, 0.0], r, h, g)
                if w != 0.0 or dw != 0.0 or g[0] != 0.0:
                    add('support', 'W=%r dwdq=%r grad=%r at q=%r>=%r h=%r'
                        % (w, dw, g[0], qq, rs, h))
            if not math.isfinite(w) or not math.isfinite(dw):
                add('non-finite', 'q=%r h=%r W=%r dwdq=%r' % (q, h, w, dw))
                continue
            if mono:
                if w < 0.0:
                    add('negative', 'W=%r at q=%r h=%r' % (w, q, h))
                if prevW is not None and w > prevW + tolS:
                    add('increasing', 'W(%r)=%r > W(%r)=%r h=%r' % (
                        q, w, prevq, prevW, h))
                if dw > tolS:
                    add('dwdq-positive', 'dwdq=%r at q=%r h=%r' % (dw, q, h))
            prevW, prevq = w, q
            # gradient = dwdq/h * x/r in every direction, zero at r = 0
            for u in (dirs if (deep or h in (1.0, 1e-3, 2.0 ** 10))
                      else dirs[:2]):
                x = [r * u[0], r * u[1], r * u[2]]
                rij = math.sqrt(x[0] * x[0] + x[1] * x[1] + x[2] * x[2])
                g = [9.0, 9.0, 9.0]
                k.gradient(x, rij, h, g)
                nev += 1
                if rij == 0.0:
                    if g != [0.0, 0.0, 0.0]:
                        add('gradient-at-zero', 'grad=%r at r=0 h=%r' % (g, h))
                    continue
                if rij <= 1e-12:
                    continue
                d = k.dwdq(rij, h)
                for a in range(3):
                    want = d / h * x[a] / rij
                    if abs(g[a] - want) > 8 * EPS * abs(want) + 1e-300:
                        add('gradient-formula', 'grad[%d]=%r, dwdq/h*x/r=%r '
                            'at q=%r h=%r dir=%r' % (a, g[a], want, q, h, u))
                        break
                for a in range(dim, 3):
                    if g[a] != 0.0:
                        add('gradient-extra-dim', 'grad[%d]=%r in %d-D' % (
                            a, g[a], dim))
            # scaling law
            w1 = W(q, 1.0)
            if abs(w * h ** dim - w1) > tolS * h ** dim and \
                    not (q in (rs,) or any(abs(q - b) < 1e-9
                                           for b in list(bounds) + [rs])):
                add('scaling', 'W(qh,h)*h^d=%r vs W(q,1)=%r q=%r h=%r' % (
                    w * h ** dim, w1, q, h))
    # derivative relations at h = 1 and two other h (finite differences)
    for h in ((1.0, 2.0 ** -10, 1e3, 2.0 ** -20, 1e-6, 0.3, 7.0, 2.0 ** 20)
              if deep else (1.0, 2.0 ** -10, 1e3)):
        fac_h = k.fac / h ** dim
        for q in qs:
            if q <= 0 or q >= rs or any(abs(q - b) < 1e-3
                                        for b in list(bounds) + [rs, 0.0]):
                continue
            r = q * h
            dq = 1e-4

            def cd(step):
                return (W((q + step) * h, h) - W((q - step) * h, h)) / (2 * step)
            fd = (4 * cd(dq / 2) - cd(dq)) / 3.0
            dw = k.dwdq(r, h)
            nev += 5
            if abs(fd - dw) > 1e-7 * fac_h:
                add('dwdq-vs-dW', 'dwdq=%r, finite difference %r at q=%r '
                    'h=%r' % (dw, fd, q, h))
            dh = 1e-4 * h

            def cdh(step):
                return (W(r, h + step) - W(r, h - step)) / (2 * step)
            fdh = (4 * cdh(dh / 2) - cdh(dh)) / 3.0
            gh = k.gradient_h([r, 0.0, 0.0], r, h)
            nev += 5
            if abs(fdh - gh) > 1e-6 * fac_h / h:
                add('gradient_h-vs-dWdh', 'gradient_h=%r, finite difference '
                    '%r at q=%r h=%r' % (gh, fdh, q, h))
        # r = 0
        gh0 = k.gradient_h([0.0, 0.0, 0.0], 0.0, h)
        dh = 1e-4 * h

        def cd0(step):
            return (W(0.0, h + step) - W(0.0, h - step)) / (2 * step)
        fd0 = (4 * cd0(dh / 2) - cd0(dh)) / 3.0
        if abs(fd0 - gh0) > 1e-6 * fac_h / h:
            add('gradient_h-vs-dWdh', 'gradient_h=%r, finite difference %r at '
                'r=0 h=%r' % (gh0, fd0, h))
    # continuity across interior boundaries (and the support edge for the
    # polynomial kernels)
    for b in list(bounds) + ([rs] if poly else []):
        lo, hi = float(np.nextafter(b, 0)), float(np.nextafter(b, 10))
        for fn, nm in ((lambda q: W(q, 1.0), 'W'),
                       (lambda q: k.dwdq(q, 1.0), 'dwdq')):
            a, m, c = fn(lo), fn(b), fn(hi)
            if abs(a - c) > 256 * EPS * abs(W(0.0, 1.0)):
                add('discontinuity', '%s jumps from %r to %r across q=%r' % (
                    nm, a, c, b))
            # the boundary point itself belongs to one of the two pieces
            elif abs(m - a) > 256 * EPS * abs(W(0.0, 1.0)):
                add('discontinuity', '%s is %r exactly at q=%r but %r / %r '
                    'one ulp below / above' % (nm, m, b, a, c))
        # ... and the same through r = q*h for exactly representable h
        for h in (2.0 ** -10, 8.0):
            S = abs(W(0.0, h))
            for fn, nm in ((lambda q: W(q * h, h), 'W'),
                           (lambda q: k.dwdq(q * h, h), 'dwdq')):
                a, m = fn(lo), fn(b)
                if abs(m - a) > 256 * EPS * S:
                    add('discontinuity', '%s is %r exactly at q=%r (h=%r) '
                        'but %r one ulp below' % (nm, m, b, h, a))
    # normalisation at h = 1 and another h
    for h in ((1.0, 0.125, 1e-6, 1e-3, 0.3, 7.0, 1e3, 2.0 ** 20) if deep
              else (1.0, 0.125)):
        edges = [0.0] + list(bounds) + [rs]
        tot = 0.0
        for a, c in zip(edges[:-1], edges[1:]):
            tot += gauss_legendre_integral(
                lambda q: W(q * h, h) * shell(dim) * (q * h) ** (dim - 1) * h,
                a, float(np.nextafter(c, 0)), 16, 20)
        ref = truncated_reference(name, dim)
        if abs(tot - ref) > 1e-10:
            add('normalisation', 'integral over the support = %r, expected %r '
                '(dim=%d h=%r)' % (tot, ref, dim, h))
    return nev, probs


def check_compiled(npiece):
    """Compiled twins return the same numbers (bit-identical for the
    polynomial kernels, <= 2 ulp for exp-based ones).  Kernels are requested
    through get_compiled_kernel in two different orders of dim."""
    import pysph.base.kernels as K
    probs = []
    nev = 0
    seq = []
    for name, (dims, bounds, poly, mono) in KERNELS.items():
        for d in dims:
            seq.append((name, d))
    for order in (seq, seq[::-1]):
        for name, dim in order:
            dims, bounds, poly, mono = KERNELS[name]
            k = getattr(K, name)(dim=dim)
            ck = K.get_compiled_kernel(k)
            rs = k.radius_scale
            ulp = 0 if poly else 4
            for h in (1.0, 0.1, 2.0 ** 10, 1e-3, 1e-6, 2.0 ** -20, 1e6) + (
                    (1e-9, 2.0 ** -30, 3e-5, 0.3, 7.0, 1e9, 2.0 ** 30)
                    if npiece > 100 else ()):
                for q in q_lattice(rs, bounds, max(8, npiece // 8)):
                    for u in directions(dim)[:5]:
                        r = q * h
                        x = (r * u[0], r * u[1], r * u[2])
                        rij = math.sqrt(x[0] * x[0] + x[1] * x[1] +
                                        x[2] * x[2])
                        wp = k.kernel(list(x), rij, h)
                        wc = ck.kernel(x[0], x[1], x[2], 0.0, 0.0, 0.0, h)
                        gp = [0.0, 0.0, 0.0]
                        k.gradient(list(x), rij, h, gp)
                        gc = ck.gradient(x[0], x[1], x[2], 0.0, 0.0, 0.0, h)
                        nev += 2
                        bad = abs(wp - wc) > ulp * EPS * abs(wp)
                        for a in range(3):
                            if abs(gp[a] - gc[a]) > ulp * EPS * abs(gp[a]):
                                bad = True
                        if bad:
                            probs.append((
                                'compiled-differs',
                                '%s dim=%d q=%r h=%r: python W=%r grad=%r, '
                                'compiled W=%r grad=%r' % (
                                    name, dim, q, h, wp, gp, wc, list(gc))))
                            break
                    else:
                        continue
                    break
            # the other compiled methods
            cls = getattr(__import__('pysph.base.c_kernels',
                                     fromlist=['x']), name)
            c = cls(**k.__dict__)
            for q in (0.0, 0.3, 0.9, 1.0, 1.7, 2.0, 2.5, 2.999, 3.0, 3.5):
                for h in (1.0, 0.25, 1e-6, 2.0 ** -20, 1e3):
                    r = q * h
                    xa = np.array([r, 0.0, 0.0])
                    pairs = [(k.dwdq(r, h), c.py_dwdq(r, h), 'dwdq'),
                             (k.gradient_h([r, 0., 0.], r, h),
                              c.py_gradient_h(xa, r, h), 'gradient_h'),
                             (k.kernel([r, 0., 0.], r, h),
                              c.py_kernel(xa, r, h), 'kernel')]
                    nev += 3
                    for a, b, nm in pairs:
                        if abs(a - b) > ulp * EPS * abs(a):
                            probs.append(('compiled-differs',
                                          '%s dim=%d %s(q=%r,h=%r): python %r '
                                          'compiled %r' % (name, dim, nm, q,
                                                           h, a, b)))
    return nev, probs


def _job(args):
    kind, name, dim, npiece = args
    if kind == 'compiled':
        nev, probs = check_compiled(npiece)
        return nev, [('kernel:compiled:%s' % p[0], p[1], dict(kind=kind))
                     for p in probs[:3]]
    nev, probs = check_kernel(name, dim, npiece, deep=npiece > 100)
    out = {}
    for kind_, what in probs:
        key = 'kernel:%s:%s' % (name, kind_)
        if key not in out:
            out[key] = (key, '%s (dim=%d)' % (what, dim),
                        dict(kind='kernel', name=name, dim=dim,
                             npiece=npiece))
    return nev, list(out.values())


def run(ctx):
    npiece = 1000 if ctx.thorough else 100
    jobs = [('compiled', None, None, npiece)]
    for name, (dims, bounds, poly, mono) in KERNELS.items():
        for d in dims:
            jobs.append(('kernel', name, d, npiece))
    # kernels must refuse unsupported dims
    import pysph.base.kernels as K
    viol = {}
    for name, (dims, b, p, m) in KERNELS.items():
        for d in (1, 2, 3):
            if d not in dims:
                try:
                    getattr(K, name)(dim=d)
                    viol['kernel:%s:accepts-unsupported-dim' % name] = (
                        '%s(dim=%d) accepted' % (name, d), dict(name=name,
                                                                dim=d))
                except ValueError:
                    pass
    res = map_jobs(_job, jobs, ctx.ncpu)
    nev = 0
    for r in res:
        if isinstance(r, Crash):
            raise RuntimeError('worker crashed %r' % r)
        n, out = r
        nev += n
        for key, what, rep in out:
            viol.setdefault(key, (what, rep))
    vs = [Violation(k, w, rep) for k, (w, rep) in sorted(viol.items())]
    cov = dict(evaluations=nev, distinct_nontrivial=len(jobs) - 1,
               kernel_dim_pairs=len(jobs) - 1, points_per_piece=npiece,
               h_values=H_POW2 + H_DEC + (H_POW2_DEEP + H_DEC_DEEP
                                          if ctx.thorough else []),
               exhaustive=True,
               samples=[dict(kernel='CubicSpline', dim=2,
                             q=q_lattice(2.0, (1.0,), 4))],
               rule='every kernel class x accepted dim x 13 (thorough 29) '
                    'smoothing lengths (2^-20..2^20 and 1e-6..1e6; thorough '
                    '2^-30..2^30, 1e-9..1e9) x q lattice (0, '
                    'every piece boundary +-1 ulp and +-2^-40, %d points per '
                    'piece, three points beyond the support) x up to 14 '
                    'directions; distinct non-trivial = (kernel, dim) pairs'
                    % npiece)
    assumptions = ['nothing is claimed between lattice points',
                   'exact support test (W == 0 at r = radius_scale*h) only '
                   'for power-of-two h where q is computed exactly; decade h '
                   'use r >= radius_scale*h*(1+1e-12)',
                   'finite-difference relations are checked 1e-3 away from '
                   'piece boundaries; continuity is checked at +-1 ulp',
                   'Gaussian family: integral over the support compared with '
                   'the analytic truncated value of the documented formula']
    return Result('exploration', cov, assumptions, vs)


def replay(ctx, obj):
    if obj.get('kind') == 'compiled':
        nev, probs = check_compiled(100)
    elif 'npiece' in obj:
        nev, probs = check_kernel(obj['name'], obj['dim'], obj['npiece'],
                                  deep=obj['npiece'] > 100)
    else:
        return dict(violates=True, note='constructor accepted dim')
    return dict(violates=bool(probs), problems=probs[:5])
