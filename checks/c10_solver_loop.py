"""C10 - the solver loop reaches tf exactly and honours the output schedule.

E4a (fixed-step configurations) + E3 (deviation-bounded adaptive answers):
the real Solver.solve runs to completion with a stub integrator; dumps,
integrator.step arguments and callbacks are recorded and judged by an oracle
written from the statement.  See DESIGN.md section 4, C10.
"""
import itertools
import math
import time

import numpy as np

from vlib.runner import Result, Violation
from vlib.pool import map_jobs, Crash

INF_STEPS = 1 << 31
STEP_BUDGET = 400


class StubIntegrator(object):
    def __init__(self, rec, answers):
        self.rec = rec
        self.answers = answers      # dict query index -> value
        self.nq = 0
        self.queries = []

    def initial_acceleration(self, t, dt):
        self.rec.append(('init_acc', t, dt))

    def step(self, t, dt):
        self.rec.append(('step', t, dt))
        if sum(1 for r in self.rec if r[0] == 'step') > STEP_BUDGET:
            raise RuntimeError('step budget exceeded')

    def compute_time_step(self, dt, cfl):
        i = self.nq
        self.nq += 1
        a = self.answers.get(i)
        self.queries.append((i, dt, a))
        self.rec.append(('query', i, dt, a))
        return a

    def set_post_stage_callback(self, cb):
        pass


def run_solver(cfg, answers=None):
    """cfg: dict(dt, tf, pfreq, out, n_damp, max_steps, adaptive)"""
    import pysph.solver.solver as SS
    rec = []
    integ = StubIntegrator(rec, answers or {})
    s = SS.Solver(dim=1, integrator=integ, kernel=SS.CubicSpline(1),
                  n_damp=cfg['n_damp'], tf=cfg['tf'], dt=cfg['dt'],
                  adaptive_timestep=cfg['adaptive'], cfl=0.3,
                  output_at_times=list(cfg['out']), pfreq=cfg['pfreq'])
    if cfg['max_steps'] != INF_STEPS:
        s.set_max_steps(cfg['max_steps'])
    s.particles = []
    s.pre_step_callbacks.append(lambda sol: rec.append(('pre', sol.t)))
    s.post_step_callbacks.append(lambda sol: rec.append(('post', sol.t)))

    def fake_dump(fname, particles, solver_data, **kw):
        rec.append(('dump', solver_data['t'], solver_data['count'],
                    solver_data['dt'], s.dt, s._damping_factor))
    old = SS.dump
    SS.dump = fake_dump
    err = None
    try:
        s.solve(show_progress=False)
    except Exception as e:  # noqa
        err = repr(e)
    finally:
        SS.dump = old
    return rec, s, err


def damping(count, n_damp):
    if count < n_damp and n_damp > 0:
        fr = (count + 1) / float(n_damp)
        return 0.5 * (math.sin(math.pi * (-0.5 + fr)) + 1.0)
    return 1.0


def judge(cfg, rec, s, err):
    """Returns list of (key, what)."""
    out = []
    dt0, tf = cfg['dt'], cfg['tf']
    if err is not None:
        kind = 'no-termination' if 'budget' in err else 'exception'
        return [(kind, 'solve() raised %s' % err)]
    steps = [r for r in rec if r[0] == 'step']
    dumps = [r for r in rec if r[0] == 'dump']
    n = len(steps)
    stopped_by_max = cfg['max_steps'] != INF_STEPS and n >= cfg['max_steps']
    t_end = s.t
    tol = 1e-12 * max(1.0, tf)
    if n > cfg['max_steps']:
        out.append(('max-steps-exceeded', '%d steps taken with max_steps=%d'
                    % (n, cfg['max_steps'])))
    # (a) end time
    if not stopped_by_max:
        if abs(t_end - tf) > 8 * np.finfo(float).eps * tf * max(1, n):
            out.append(('end-time', 't_end=%r tf=%r' % (t_end, tf)))
    # (b) strictly increasing, chained
    t = 0.0
    for k, (_, ts, dts) in enumerate(steps):
        if ts != t:
            out.append(('time-chain', 'step %d called with t=%r, expected %r'
                        % (k, ts, t)))
            break
        if not dts > 0:
            out.append(('non-positive-step', 'step %d has dt=%r' % (k, dts)))
            break
        t = ts + dts
    # (c) no step exceeds the nominal (damped, adaptive or fixed) step
    # nominal undamped step N: fixed dt, replaced by each non-None answer
    N = dt0
    nominal = []           # nominal undamped step in force for step k
    qi = 0
    queries = [r for r in rec if r[0] == 'query']
    # queries happen once before the loop and once after every step
    seq = [r for r in rec if r[0] in ('query', 'step')]
    cur = dt0
    for r in seq:
        if r[0] == 'query':
            if r[3] is not None:
                cur = r[3]
        else:
            nominal.append(cur)
    for k, (_, ts, dts) in enumerate(steps):
        lim = nominal[k] * damping(k, cfg['n_damp'])
        if dts > lim * (1 + 1e-12) + 4 * np.finfo(float).eps * tf * (k + 1):
            out.append(('step-too-large',
                        'step %d: dt=%r exceeds nominal %r (undamped %r)'
                        % (k, dts, lim, nominal[k])))
            break
    # dumps: first and last
    if not dumps or dumps[0][1] != 0 or dumps[0][2] != 0:
        out.append(('no-initial-dump', 'first dump %r' % (dumps[:1],)))
    if not dumps or dumps[-1][2] != n or abs(dumps[-1][1] - t_end) > tol:
        out.append(('no-final-dump', 'last dump %r, end (t=%r,count=%d)'
                    % (dumps[-1:], t_end, n)))
    # every pfreq-th iteration
    dcounts = set(d[2] for d in dumps)
    for c in range(1, n + 1):
        if c % cfg['pfreq'] == 0 and c not in dcounts:
            out.append(('pfreq-missed', 'no dump at iteration %d (pfreq=%d)'
                        % (c, cfg['pfreq'])))
            break
    # requested times
    times = [0.0]
    for (_, ts, dts) in steps:
        times.append(ts + dts)
    for T in cfg['out']:
        if not (0 < T < tf - tol) or T > t_end + tol:
            continue
        hit = any(abs(d[1] - T) <= tol for d in dumps)
        straddle = any(a < T - tol and b > T + tol
                       for a, b in zip(times[:-1], times[1:]))
        if straddle or not hit:
            first = T < times[1] - tol if len(times) > 1 else False
            key = 'output-time-missed' + (':first-step' if first else '')
            out.append((key, 'requested output time %r: dumped=%s, '
                        'stepped over=%s; step times %r' % (
                            T, hit, straddle, times[:12])))
            break
    # recorded dt is the nominal (undamped) one
    #   nominal at the time of a dump taken at count c = value in force for
    #   step c (the next step)
    for d in dumps:
        _, td, c, dtrec, sdt, damp = d
        if c >= n:
            continue           # final dump: not covered by the statement
        # the initial dump is written before the first adaptive query
        expect = nominal[c] if c > 0 else dt0
        nxt = steps[c][2]
        if steps[c][1] + expect * damping(c, cfg['n_damp']) > tf - tol:
            # the nominal step is clipped to land on tf: the statement only
            # speaks of steps shortened for requested output times
            continue
        if abs(dtrec - expect) > 1e-9 * expect:
            out.append(('recorded-dt',
                        'dump at count %d t=%r records dt=%r, nominal %r '
                        '(next step %r)' % (c, td, dtrec, expect, nxt)))
            break
    # callbacks: exactly once per step, in order
    seq = [r[0] for r in rec if r[0] in ('pre', 'step', 'post')]
    if seq != ['pre', 'step', 'post'] * n:
        out.append(('callbacks', 'callback/step sequence %r' % (seq[:12],)))
    return out


def ulp_up(x):
    return float(np.nextafter(x, np.inf))


def ulp_dn(x):
    return float(np.nextafter(x, -np.inf))


def candidates(dt, tf):
    """Candidate requested output times for (dt, tf)."""
    c = []
    c.append(dt / 2)                       # inside the first step
    for k in (2, 8):
        acc = 0.0
        for i in range(k):
            acc += dt
        if acc + dt < tf:
            c += [acc, k * dt, ulp_up(acc), ulp_dn(acc),
                  acc + dt / 4, acc - dt / 4, acc + dt / 2]
    nlast = int(tf / dt - 1e-9)
    c.append(nlast * dt + (tf - nlast * dt) / 2)  # inside the last step
    c.append(tf)
    c.append(tf + dt)
    c = sorted(set(x for x in c if x > 0))
    return c


def out_subsets(dt, tf, maxk):
    c = candidates(dt, tf)
    subs = [()]
    for k in range(1, maxk + 1):
        for sub in itertools.combinations(c, k):
            # reading (ii): entries closer than 1e-9*tf denote the same time
            if any(abs(a - b) <= 1e-9 * tf for a, b in zip(sub[:-1], sub[1:])):
                continue
            subs.append(sub)
    return subs


DTS = [0.1, 0.25, 0.3, 1.0 / 3, 0.07]
PFREQ = [1, 2, 3, 100]
NDAMP = [0, 1, 3]


def tfs(dt):
    # commensurate, not commensurate, and a hair (0.05 % of a step) beyond /
    # short of a whole number of steps
    return sorted(set([dt * 1, dt * 2, dt * 3.5, 1.0, 0.95,
                       dt * 3 + dt * 5e-4, dt * 3 - dt * 5e-4]))


def fixed_configs(thorough, seed):
    maxk = 3
    dts = DTS + ([0.013, 0.2, 0.125] if thorough else [])
    for dt in dts:
        for tf in tfs(dt):
            for sub in out_subsets(dt, tf, maxk):
                for pf in PFREQ:
                    for nd in NDAMP:
                        for ms in (INF_STEPS, 0, 1, 2):
                            yield dict(dt=dt, tf=tf, pfreq=pf, out=sub,
                                       n_damp=nd, max_steps=ms,
                                       adaptive=False)


def adaptive_base_configs(thorough):
    for dt in (0.1, 0.3):
        for tf in (1.0, dt * 3.5):
            c = candidates(dt, tf)
            subs = [(), (c[0],), (2 * dt + dt / 4,), (2 * dt + dt / 4,
                                                      2 * dt + dt / 2)]
            for sub in subs:
                sub = tuple(x for x in sub if x < tf + dt)
                for pf in (1, 3):
                    for nd in (0, 3):
                        yield dict(dt=dt, tf=tf, pfreq=pf, out=sub,
                                   n_damp=nd, max_steps=INF_STEPS,
                                   adaptive=True)
                if thorough or sub == ():
                    for ms in (0, 1, 3):
                        yield dict(dt=dt, tf=tf, pfreq=2, out=sub, n_damp=1,
                                   max_steps=ms, adaptive=True)


def _fixed_job(cfgs):
    res = []
    sig = set()
    for cfg in cfgs:
        rec, s, err = run_solver(cfg)
        pr = judge(cfg, rec, s, err)
        steps = tuple(round(r[2], 12) for r in rec if r[0] == 'step')
        dumps = tuple(r[2] for r in rec if r[0] == 'dump')
        sig.add(hash((steps, dumps)))
        for k, w in pr:
            res.append((k, w, cfg, None))
    return len(cfgs), sig, res


def _adaptive_job(args):
    """E3: explore all answer sequences with <= bound non-default answers."""
    cfg, bound = args
    menu = [0.5 * cfg['dt'], cfg['dt'], 1.7 * cfg['dt']]
    res = []
    sig = set()
    runs = 0
    states = set()
    transitions = 0
    stack = [{}]
    seen_prefix = set()
    while stack:
        ans = stack.pop()
        rec, s, err = run_solver(cfg, ans)
        runs += 1
        pr = judge(cfg, rec, s, err)
        steps = tuple(round(r[2], 12) for r in rec if r[0] == 'step')
        sig.add(hash(steps))
        for r in rec:
            if r[0] == 'query':
                states.add((r[1], round(r[2], 12)))
                transitions += 1
        for k, w in pr:
            res.append((k, w, cfg, dict(ans)))
        nq = sum(1 for r in rec if r[0] == 'query')
        if len(ans) < bound:
            last = max(ans) if ans else -1
            for qi in range(last + 1, nq):
                for a in menu:
                    a2 = dict(ans)
                    a2[qi] = a
                    stack.append(a2)
    return runs, sig, res, len(states), transitions


def run(ctx):
    cfgs = list(fixed_configs(ctx.thorough, ctx.seed))
    chunk = 400
    jobs = [cfgs[i:i + chunk] for i in range(0, len(cfgs), chunk)]
    results = map_jobs(_fixed_job, jobs, ctx.ncpu)
    viols = {}
    nfixed = 0
    sigs = set()

    def add(k, w, cfg, ans):
        key = 'solver:' + k
        size = (len(cfg['out']), cfg['n_damp'], cfg['pfreq'],
                0 if cfg['max_steps'] == INF_STEPS else 1,
                len(ans or {}), cfg['tf'])
        if key not in viols or size < viols[key][0]:
            viols[key] = (size, w, cfg, ans)
    for r in results:
        if isinstance(r, Crash):
            raise RuntimeError('worker crashed: %r' % r)
        n, sg, res = r
        nfixed += n
        sigs |= sg
        for k, w, cfg, ans in res:
            add(k, w, cfg, ans)
    bound = 4 if ctx.thorough else 2
    ajobs = [(c, bound) for c in adaptive_base_configs(ctx.thorough)]
    aresults = map_jobs(_adaptive_job, ajobs, ctx.ncpu)
    nad = 0
    asigs = set()
    nstates = 0
    ntrans = 0
    for r in aresults:
        if isinstance(r, Crash):
            raise RuntimeError('worker crashed: %r' % r)
        n, sg, res, nst, ntr = r
        nad += n
        asigs |= sg
        nstates += nst
        ntrans += ntr
        for k, w, cfg, ans in res:
            add(k, w, cfg, ans)
    vs = []
    for key, (size, w, cfg, ans) in sorted(viols.items()):
        c2 = dict(cfg)
        c2['out'] = list(cfg['out'])
        vs.append(Violation(key, '%s [cfg=%r answers=%r]' % (w, c2, ans),
                            dict(cfg=c2, answers={str(k): v for k, v in
                                                  (ans or {}).items()})))
    ex_cfg = dict(cfgs[(ctx.seed * 7919 + 12345) % len(cfgs)])
    ex_cfg['out'] = list(ex_cfg['out'])
    rec, s, err = run_solver(cfgs[(ctx.seed * 7919 + 12345) % len(cfgs)])
    cov = dict(
        states=nstates + len(sigs), transitions=ntrans + nfixed,
        traces_validated_against_impl=nfixed + nad,
        fixed_step_configurations=nfixed, adaptive_runs=nad,
        adaptive_base_configurations=len(ajobs),
        deviation_bound=bound,
        distinct_step_dump_patterns=len(sigs) + len(asigs),
        exhaustive=True,
        samples=[dict(cfg=ex_cfg,
                      trace=[list(r) for r in rec if r[0] in
                             ('step', 'dump')][:20])],
        rule='fixed-step: full product dt x tf x pfreq x n_damp x max_steps '
             'x all sorted subsets (size<=%d) of per-(dt,tf) candidate output '
             'times; adaptive: every sequence of answers from {None,0.5dt,dt,'
             '1.7dt} with <=%d non-None answers; each run is a complete '
             'execution of the real Solver.solve; states = distinct '
             '(query index, proposed dt) solver states at environment '
             'queries + distinct step/dump patterns' % (
                 3, bound))
    assumptions = [
        'stub integrator; dump replaced by a recorder; no particles',
        'recorded-dt clause not applied to the dump preceding a step clipped '
        'only to land on tf, nor to the final dump',
        'requested times in one list are pairwise separated by > 1e-9*tf',
    ]
    return Result('model_checking', cov, assumptions, vs)


def replay(ctx, obj):
    cfg = dict(obj['cfg'])
    cfg['out'] = tuple(cfg['out'])
    ans = {int(k): v for k, v in (obj.get('answers') or {}).items()}
    rec, s, err = run_solver(cfg, ans)
    pr = judge(cfg, rec, s, err)
    return dict(violates=bool(pr), problems=pr,
                trace=[list(r) for r in rec if r[0] in ('step', 'dump')])
