"""C04 - the compiled integrator performs one_timestep exactly as written.

E5 (integrator variant): (a) every shipped scheme's integrator + steppers +
equations on a small problem, (b) a grammar of generated integrators with
trace steppers; the compiled Integrator.step is compared with a mirror that
executes the integrator's Python one_timestep literally (steppers applied to
real particles only, accelerations by the reference interpreter).
See DESIGN.md section 4, C04.
"""
import contextlib
import hashlib
import importlib.util
import io
import itertools
import os

import numpy as np

from vlib.runner import Result, Violation
from vlib.pool import map_jobs, Crash


def snapshot(arrays):
    st = {}
    for pa in arrays:
        for p in sorted(pa.properties):
            st['%s.%s' % (pa.name, p)] = pa.get_carray(p).get_npy_array()\
                .copy()
        for c in sorted(pa.constants):
            st['%s.%s' % (pa.name, c)] = pa.get_carray(c).get_npy_array()\
                .copy()
    return st


def diff_states(a, b, exact):
    for k in a:
        if k not in b:
            return '%s missing on reference side' % k
        x, y = a[k], b[k]
        if x.shape != y.shape:
            return '%s: shapes %r vs %r' % (k, x.shape, y.shape)
        if exact:
            same = np.array_equal(x, y, equal_nan=True)
        else:
            with np.errstate(all='ignore'):
                same = np.allclose(x, y, rtol=1e-11, atol=1e-14,
                                   equal_nan=True)
        if not same:
            with np.errstate(all='ignore'):
                i = int(np.argmax(~np.isclose(x, y, rtol=0, atol=0,
                                              equal_nan=True)))
            return '%s[%d]: compiled %r reference %r' % (
                k, i, x.ravel()[i].item(), y.ravel()[i].item())
    return None


# ---------------------------------------------------------------------------
# (a) shipped schemes
# ---------------------------------------------------------------------------
PROGRESS = {}


def scheme_case(mod, name, dim, solid, opts, nsteps=2):
    from checks import c12_schemes as S
    from compyle.config import get_config
    get_config().use_openmp = False
    from pysph.base.nnps import LinkedListNNPS
    from pysph.sph.acceleration_eval import group_equations
    from pysph.sph.equation import MultiStageEquations
    from vlib.ref.integrator_mirror import Mirror
    cls = S.load(mod, name)
    dts = [1e-5, 2.5e-5, 1e-5]
    sides = {}
    logs = {}
    from vlib.ref.sph_interp import Prop
    Prop.C_DIVISION = True    # x/0.0 -> inf/nan like the compiled code
    for side in ('reference', 'compiled'):
        PROGRESS['side'] = side
        from vlib.build import reset_group_counter
        reset_group_counter()
        buf = io.StringIO()
        with contextlib.redirect_stdout(buf), np.errstate(all="ignore"):
            s = S.make_scheme(cls, dim, solid, opts)
            s.configure_solver(dt=1e-5, tf=1.0, pfreq=100000)
            pas = S.make_particles(dim, solid, name)
            s.setup_properties(pas, clean=True)
            S.init_scheme_props(pas, dim)
            eqs = s.get_equations()
            solver = s.solver
            kernel = solver.kernel
            nnps = LinkedListNNPS(dim=dim, particles=pas,
                                  radius_scale=kernel.radius_scale)
            integ = solver.integrator
            log = []

            def cb(t, dt, stage, log=log):
                log.append((round(t, 15), round(dt, 15), stage))
            snaps = []
            if side == 'compiled':
                solver.set_disable_output(True)
                solver.pm = None
                solver.in_parallel = False
                solver.setup(pas, eqs, nnps, kernel)
                integ.set_post_stage_callback(cb)
                t = 0.0
                integ.initial_acceleration(t, dts[0])
                snaps.append(snapshot(pas))
                for k in range(nsteps):
                    integ.step(t, dts[k])
                    t += dts[k]
                    snaps.append(snapshot(pas))
            else:
                if isinstance(eqs, MultiStageEquations):
                    glist = [group_equations(g) for g in eqs.groups]
                else:
                    glist = [group_equations(eqs)]
                m = Mirror(integ, pas, glist, kernel, nnps, log)
                m.set_post_stage_callback(cb)
                t = 0.0
                type(integ).initial_acceleration(m, t, dts[0]) if \
                    'initial_acceleration' in type(integ).__dict__ else \
                    m.initial_acceleration(t, dts[0])
                snaps.append(snapshot(pas))
                for k in range(nsteps):
                    m.step(t, dts[k])
                    t += dts[k]
                    snaps.append(snapshot(pas))
        sides[side] = snaps
        logs[side] = log
    return sides, logs


def _scheme_job(args):
    mod, name, dim, solid, opts = args
    from checks import c12_schemes as S
    cls = S.load(mod, name)
    why = S.run_not_judged(name, dim, solid)
    if why:
        # not physically initialised by the generic block: non-finite
        # positions would be fed to the neighbour search (see C12)
        return dict(skipped='not run: ' + why)
    status, probs = S.static_check(cls, dim, solid, True, opts)
    if status == 'unsupported' or probs:
        return dict(skipped='static: %s %r' % (status, probs[:1]))
    try:
        sides, logs = scheme_case(mod, name, dim, solid, opts)
    except SystemExit:
        return dict(skipped='generated code does not compile (C12)')
    except Exception as e:  # noqa
        import traceback
        tb = traceback.format_exc()
        if PROGRESS.get('side') == 'compiled':
            # the reference completed both steps on the same input
            return dict(problem='compiled side raised %s: %s (the literal '
                        'execution completed)' % (type(e).__name__,
                                                  str(e)[:160]))
        where = 'reference' if 'sph_interp' in tb or \
            'integrator_mirror' in tb else 'set-up'
        return dict(skipped='%s side raised %s: %s' % (
            where, type(e).__name__, str(e)[:160]))
    for k, (a, b) in enumerate(zip(sides['compiled'], sides['reference'])):
        d = diff_states(a, b, exact=False)
        if d:
            return dict(problem='after %s: %s' % (
                'initial acceleration' if k == 0 else 'step %d' % k, d))
    if logs['compiled'] != logs['reference']:
        return dict(problem='post-stage callback log: compiled %r reference '
                    '%r' % (logs['compiled'][:6], logs['reference'][:6]))
    return dict(ok=True, stages=len(logs['compiled']))


# ---------------------------------------------------------------------------
# (b) generated integrators with trace steppers
# ---------------------------------------------------------------------------
GEN_HEADER = '''from pysph.sph.integrator import Integrator
from pysph.sph.integrator_step import IntegratorStep
from pysph.sph.equation import Equation


class TrAccel(Equation):
    """acceleration = number of neighbours + a neighbour dependent value"""
    def __init__(self, dest, sources, c=1.0):
        self.c = c
        super(TrAccel, self).__init__(dest, sources)

    def initialize(self, d_idx, d_au):
        d_au[d_idx] = 0.0

    def loop(self, d_idx, s_idx, d_au, s_sv):
        d_au[d_idx] += self.c + 0.001*s_sv[s_idx]


class TrStepA(IntegratorStep):
    def __init__(self, k=2.0):
        self.k = k

    def initialize(self, d_idx, d_tr, d_x0, d_x):
        d_tr[d_idx] = d_tr[d_idx]*0.5 + 1.0
        d_x0[d_idx] = d_x[d_idx]

    def stage1(self, d_idx, d_tr, d_x, d_x0, d_au, t, dt):
        d_tr[d_idx] = d_tr[d_idx]*self.k + t*1000.0 + dt*100000.0 + 1.0
        d_x[d_idx] = d_x0[d_idx] + 2.0*dt*d_au[d_idx]

    def stage2(self, d_idx, d_tr, d_x, d_au, t, dt):
        d_tr[d_idx] = d_tr[d_idx]*3.0 + t*1000.0 + dt*100000.0 + 2.0
        d_x[d_idx] += 1.0*dt*d_au[d_idx]

    def stage3(self, d_idx, d_tr, t, dt):
        d_tr[d_idx] = d_tr[d_idx]*5.0 + t*1000.0 + dt*100000.0 + 3.0

    def stage4(self, d_idx, d_tr, t, dt):
        d_tr[d_idx] = d_tr[d_idx]*7.0 + t*1000.0 + dt*100000.0 + 4.0

    def stage5(self, d_idx, d_tr, t, dt):
        d_tr[d_idx] = d_tr[d_idx]*11.0 + t*1000.0 + dt*100000.0 + 5.0


class TrStepC(TrStepA):
    """python level hook that changes the number of real particles: the
    stage that follows must step the particles present after the hook"""
    def py_stage1(self, dst, t, dt):
        n = dst.get_number_of_particles(True)
        if n < 9:
            dst.add_particles(x=[0.03 + 0.017*n], y=[0.05], h=[0.13],
                              tr=[100.0 + n], sv=[3.0], x0=[0.5])


class TrStepB(IntegratorStep):
    """no initialize; python level hooks on two stages"""
    def py_stage1(self, dst, t, dt):
        dst.hook[0] = dst.hook[0]*3.0 + t*1000.0 + dt*100000.0 + 1.0

    def stage1(self, d_idx, d_tr, d_au, t, dt):
        d_tr[d_idx] = d_tr[d_idx]*13.0 + d_au[d_idx] + t*1000.0 + 1.0

    def py_stage2(self, dst, t, dt):
        dst.hook[0] = dst.hook[0]*5.0 + t*1000.0 + dt*100000.0 + 2.0

    def stage2(self, d_idx, d_tr, t, dt):
        d_tr[d_idx] = d_tr[d_idx]*17.0 + dt*100000.0 + 2.0

    def stage3(self, d_idx, d_tr, d_au):
        d_tr[d_idx] = d_tr[d_idx]*19.0 + d_au[d_idx] + 3.0


class TrStepD(IntegratorStep):
    """stages 2, 4 and 5 exist only as python level hooks (a prescribed
    motion body): the hook is the whole stage for this array"""
    def stage1(self, d_idx, d_tr, t, dt):
        d_tr[d_idx] = d_tr[d_idx]*23.0 + t*1000.0 + dt*100000.0 + 1.0

    def py_stage2(self, dst, t, dt):
        dst.hook[0] = dst.hook[0]*7.0 + t*1000.0 + dt*100000.0 + 2.0
        dst.tr[:] = dst.tr*1.5 + 0.25

    def stage3(self, d_idx, d_tr):
        d_tr[d_idx] = d_tr[d_idx]*29.0 + 3.0

    def py_stage4(self, dst, t, dt):
        dst.tr[:] = dst.tr*0.5 + t

    def py_stage5(self, dst, t, dt):
        dst.hook[0] = dst.hook[0] + 5.0

'''


def gen_integrators(thorough):
    """Source of generated Integrator subclasses + their specs."""
    specs = []
    fr = [0.0, 0.5, 1.0, 0.25]
    for nst in (1, 2, 3, 5):
        for init in (False, True):
            for acc_pat in range(4):
                for dom in (False, True):
                    body = []
                    if init:
                        body.append('self.initialize()')
                    for st in range(1, nst + 1):
                        # acceleration placement pattern
                        if acc_pat == 0 or (acc_pat == 1 and st == 1):
                            body.append('self.compute_accelerations()')
                        elif acc_pat == 2:
                            body.append('self.compute_accelerations(%d, '
                                        'update_nnps=False)' % ((st - 1) % 2))
                        elif acc_pat == 3 and st % 2 == 1:
                            body.append('self.compute_accelerations(1)')
                        body.append('self.stage%d()' % st)
                        if dom:
                            body.append('self.update_domain()')
                        body.append('self.do_post_stage(%r*dt, %d)' % (
                            fr[st % 4] if st < nst else 1.0, st))
                    specs.append(body)
    if not thorough:
        specs = specs[::2] + specs[1::8]
    src = [GEN_HEADER]
    for i, body in enumerate(specs):
        src.append('class GenInt%03d(Integrator):' % i)
        src.append('    def one_timestep(self, t, dt):')
        for l in body:
            src.append('        ' + l)
        src.append('')
        src.append('')
    return '\n'.join(src), len(specs)


_GEN = {}


def gen_module(thorough):
    if thorough in _GEN:
        return _GEN[thorough]
    src, n = gen_integrators(thorough)
    d = os.path.join(os.path.expanduser('~'), 'verif_gen')
    os.makedirs(d, exist_ok=True)
    name = 'c04_gen_%s' % hashlib.md5(src.encode()).hexdigest()[:10]
    path = os.path.join(d, name + '.py')
    if not os.path.exists(path):
        tmp = path + '.%d' % os.getpid()
        with open(tmp, 'w') as f:
            f.write(src)
        os.replace(tmp, path)
    spec = importlib.util.spec_from_file_location(name, path)
    mod = importlib.util.module_from_spec(spec)
    import sys
    sys.modules[name] = mod
    spec.loader.exec_module(mod)
    _GEN[thorough] = (mod, n)
    return mod, n


def gen_arrays(mirror=False):
    from pysph.base.utils import get_particle_array
    from pysph.base.nnps import DomainManager
    out = []
    uid = 1
    for name, n, off in (('a', 6, 0.05), ('b', 5, 0.2), ('c', 3, 0.4)):
        x = off + 0.19 * np.arange(n)
        pa = get_particle_array(name=name, x=x, y=0.1 * (np.arange(n) % 2),
                                h=0.13 * np.ones(n))
        pa.add_property('tr', data=(uid + np.arange(n)).astype(float))
        pa.add_property('sv', data=(7.0 * (uid + np.arange(n)) % 13))
        pa.add_property('x0')
        pa.add_constant('hook', [float(uid)])
        uid += n
        out.append(pa)
    if mirror:
        dom = DomainManager(xmin=0.0, xmax=1.2, mirror_in_x=True,
                            n_layers=1.0)
    else:
        dom = DomainManager(xmin=0.0, xmax=1.2, periodic_in_x=True,
                            n_layers=1.0)
    return out, dom


REDEF_BODIES = [
    ['self.compute_accelerations()', 'self.stage1()',
     'self.do_post_stage(dt, 1)'],
    ['self.initialize()', 'self.compute_accelerations()', 'self.stage1()',
     'self.do_post_stage(0.5*dt, 1)', 'self.compute_accelerations()',
     'self.stage2()', 'self.do_post_stage(dt, 2)'],
    ['self.stage2()', 'self.do_post_stage(0.25*dt, 1)',
     'self.compute_accelerations(1)', 'self.stage1()', 'self.stage3()',
     'self.do_post_stage(dt, 2)'],
]


def redef_class(version):
    """A class called Redef in a module called c04_redef, re-defined with a
    different one_timestep (what a notebook cell or a reload does)."""
    import sys
    src = GEN_HEADER + '\n\nclass Redef(Integrator):\n' \
        '    def one_timestep(self, t, dt):\n' + ''.join(
            '        %s\n' % l for l in REDEF_BODIES[version])
    d = os.path.join(os.path.expanduser('~'), 'verif_gen')
    os.makedirs(d, exist_ok=True)
    path = os.path.join(d, 'c04_redef_v%d_%s.py' % (
        version, hashlib.md5(src.encode()).hexdigest()[:8]))
    if not os.path.exists(path):
        tmp = path + '.%d' % os.getpid()
        with open(tmp, 'w') as f:
            f.write(src)
        os.replace(tmp, path)
    spec = importlib.util.spec_from_file_location('c04_redef', path)
    mod = importlib.util.module_from_spec(spec)
    sys.modules['c04_redef'] = mod
    spec.loader.exec_module(mod)
    return mod


def _redef_job(_):
    out = []
    for version in range(len(REDEF_BODIES)):
        mod = redef_class(version)
        try:
            res, logs = gen_case(0, False, 0, module=mod)
        except SystemExit:
            out.append((version, 'does not compile'))
            continue
        bad = None
        for k, (a, b) in enumerate(zip(res['compiled'], res['reference'])):
            d = diff_states(a, b, exact=True)
            if d:
                bad = 'after step %d: %s' % (k + 1, d)
                break
        if bad is None and logs['compiled'] != logs['reference']:
            bad = 'post-stage log: compiled %r reference %r' % (
                logs['compiled'][:6], logs['reference'][:6])
        out.append((version, bad))
    return out


def gen_case(idx, thorough, wiring, module=None):
    from compyle.config import get_config
    get_config().use_openmp = False
    from pysph.base.kernels import CubicSpline
    from pysph.base.nnps import LinkedListNNPS
    from pysph.sph.acceleration_eval import AccelerationEval
    from pysph.sph.sph_compiler import SPHCompiler
    from pysph.sph.equation import Group
    from vlib.ref.integrator_mirror import Mirror
    if module is not None:
        mod, cls = module, module.Redef
    else:
        mod, n = gen_module(thorough)
        cls = getattr(mod, 'GenInt%03d' % idx)
    kernel = CubicSpline(dim=2)
    dts = [0.01, 0.004, 0.01]
    res = {}
    logs = {}
    for side in ('compiled', 'reference'):
        arrays, dom = gen_arrays(mirror=(wiring == 4))
        from vlib.build import reset_group_counter
        reset_group_counter()
        if wiring in (0, 4):
            steppers = dict(a=mod.TrStepA(k=2.0), b=mod.TrStepB())
        elif wiring == 1:
            steppers = dict(a=mod.TrStepB(), b=mod.TrStepA(k=4.0),
                            c=mod.TrStepA(k=6.0))
        elif wiring == 3:
            steppers = dict(a=mod.TrStepC(k=2.0), b=mod.TrStepA(k=5.0))
        elif wiring == 5:
            steppers = dict(a=mod.TrStepA(k=2.0), b=mod.TrStepD(),
                            c=mod.TrStepB())
        else:
            steppers = dict(c=mod.TrStepA(k=3.0))
        integ = cls(**steppers)
        g0 = [Group(equations=[mod.TrAccel(dest=nm, sources=['a', 'b', 'c'],
                                           c=1.0) for nm in ('a', 'b', 'c')])]
        g1 = [Group(equations=[mod.TrAccel(dest=nm, sources=['a', 'c'],
                                           c=10.0) for nm in ('a', 'b', 'c')])]
        nn = LinkedListNNPS(dim=2, particles=arrays,
                            radius_scale=kernel.radius_scale, domain=dom)
        log = []

        def cb(t, dt, stage, log=log):
            log.append((round(t, 14), round(dt, 14), stage))
        snaps = []
        if side == 'compiled':
            aes = [AccelerationEval(arrays, g0, kernel),
                   AccelerationEval(arrays, g1, kernel)]
            comp = SPHCompiler(aes, integ)
            comp.compile()
            for ae in aes:
                ae.set_nnps(nn)
            integ.set_nnps(nn)
            integ.set_post_stage_callback(cb)
            if wiring == 4:
                # constant smoothing lengths declared (what
                # Solver(fixed_h=True) does): ghosts must still be re-created
                integ.set_fixed_h(True)
            obj = integ
        else:
            obj = Mirror(integ, arrays, [g0, g1], kernel, nn, log)
            obj.set_post_stage_callback(cb)
        t = 0.5
        for dt in dts:
            obj.step(t, dt)
            t += dt
            snaps.append(snapshot(arrays))
        res[side] = snaps
        logs[side] = log
    return res, logs


def _gen_job(args):
    idxs, thorough, wiring = args
    out = []
    for idx in idxs:
        try:
            res, logs = gen_case(idx, thorough, wiring)
        except SystemExit:
            out.append((idx, wiring, 'generated integrator does not compile'))
            continue
        except Exception as e:  # noqa
            import traceback
            out.append((idx, wiring, 'raised: ' + traceback.format_exc()[
                -300:]))
            continue
        bad = None
        for k, (a, b) in enumerate(zip(res['compiled'], res['reference'])):
            d = diff_states(a, b, exact=True)
            if d:
                bad = 'after step %d: %s' % (k + 1, d)
                break
        if bad is None and logs['compiled'] != logs['reference']:
            bad = 'post-stage log: compiled %r reference %r' % (
                logs['compiled'][:6], logs['reference'][:6])
        out.append((idx, wiring, bad))
    return out


def run(ctx):
    from checks import c12_schemes as S
    sjobs = []
    for mod, name in S.SCHEMES:
        for dim, solid in ((2, False), (2, True), (1, False)):
            sjobs.append((mod, name, dim, solid, {}))
    mod_, ngen = gen_module(ctx.thorough)
    gsrc, _ = gen_integrators(ctx.thorough)
    gjobs = []
    bodies = gsrc.split('class GenInt')[1:]
    for w in (0, 1, 2, 3, 4, 5):
        idxs = list(range(ngen))
        if w == 4:
            # mirror domain + fixed_h: integrators that call update_domain
            idxs = [i for i in idxs if 'update_domain' in bodies[i]]
        if w == 3:
            # the hook adds a particle: only integrators that refresh the
            # neighbour search before they use it again
            idxs = [i for i in idxs if 'update_nnps=False' not in bodies[i]]
        if not ctx.thorough and w in (1, 2):
            # (every generated integrator with wirings 0, 3, 4, 5)
            idxs = idxs[(ctx.seed + w) % 3::3]
        for i in range(0, len(idxs), 6):
            gjobs.append((idxs[i:i + 6], ctx.thorough, w))
    jobs = [('s', j) for j in sjobs] + [('g', j) for j in gjobs] + \
        [('r', None)]

    def disp(j):
        if j[0] == 'r':
            return _redef_job(None)
        return _scheme_job(j[1]) if j[0] == 's' else _gen_job(j[1])
    res = map_jobs(disp, jobs, ctx.ncpu, job_timeout=3000)
    viol = {}
    nprog = 0
    skipped = []
    samples = []
    for (kind, j), r in zip(jobs, res):
        if kind == 'r':
            if isinstance(r, Crash):
                viol.setdefault('integrator:redefined:crash', (
                    r.reason, dict(kind='redefined')))
                continue
            for version, bad in r:
                nprog += 1
                if bad:
                    viol.setdefault('integrator:redefined', (
                        'class Redef of module c04_redef, definition %d '
                        '(after the earlier definitions were compiled in '
                        'the same process): %s' % (version, bad),
                        dict(kind='redefined')))
            continue
        if isinstance(r, Crash):
            rep = dict(kind='scheme', mod=j[0], name=j[1], dim=j[2],
                       solid=j[3]) if kind == 's' else \
                dict(kind='generated', idxs=list(j[0]), thorough=j[1],
                     wiring=j[2])
            viol.setdefault('integrator:crash:%s' % (
                j[1] if kind == 's' else 'generated'), (r.reason, rep))
            continue
        if kind == 's':
            tag = '%s dim=%d solid=%s' % (j[1], j[2], j[3])
            if 'skipped' in r:
                skipped.append((tag, r['skipped']))
            elif 'problem' in r:
                nprog += 1
                viol.setdefault('integrator:scheme:%s' % j[1], (
                    '%s: %s' % (tag, r['problem']),
                    dict(kind='scheme', mod=j[0], name=j[1], dim=j[2],
                         solid=j[3])))
            else:
                nprog += 1
        else:
            for idx, w, bad in r:
                nprog += 1
                if bad:
                    viol.setdefault('integrator:generated:wiring%d' % w, (
                        'GenInt%03d: %s' % (idx, bad),
                        dict(kind='generated', idx=idx, wiring=w,
                             thorough=ctx.thorough)))
    vs = [Violation(k, w, rep) for k, (w, rep) in sorted(viol.items())]
    cov = dict(programs=nprog, disagreements_checked=nprog,
               states=nprog, transitions=3 * nprog,
               traces_validated_against_impl=nprog,
               generated_integrators=ngen, scheme_cases=len(sjobs),
               not_covered=skipped, exhaustive=True,
               samples=[dict(generated_one_timestep=gsrc.split(
                   'class GenInt003')[1].split('class GenInt004')[0][:600])],
               rule='(a) the integrator, steppers and equations of each of '
                    'the 17 shipped schemes (default options; 2-D without '
                    'and with a solid, 1-D) for initial acceleration + 2 '
                    'steps of different dt; (b) generated integrators: 1/2/'
                    '3/5 stages x with/without initialize x 4 acceleration '
                    'placements (default, once, index 0/1 with update_nnps='
                    'False, evaluator 1) x update_domain after each stage or '
                    'not x stage-time fractions, with five wirings '
                    '(one array without stepper, py_stage hooks on a subset '
                    'of stages, a hook that adds particles, stages that exist only as a python hook; a mirror instead of a periodic domain with fixed_h declared) on three arrays in a periodic domain, 3 '
                    'steps of varying dt; compiled Integrator.step vs the '
                    'mirror; all properties and the post-stage log; (c) an '
                    'integrator class re-defined twice under the same module '
                    'and class name in one process')
    assumptions = ['the mirror (vlib/ref/integrator_mirror.py) and the '
                   'reference interpreter are the model of the documented '
                   'semantics', 'scheme cases are compared to 1e-11 relative '
                   '(libm in equations), generated ones bit for bit',
                   'schemes whose Python code cannot run in the reference '
                   '(compiled-only helpers) are listed under not_covered']
    return Result('model_checking', cov, assumptions, vs)


def replay(ctx, obj):
    if obj.get('kind') == 'scheme':
        r = _scheme_job((obj['mod'], obj['name'], obj['dim'], obj['solid'],
                         {}))
        return dict(violates='problem' in r, result=r)
    if obj.get('kind') == 'redefined':
        r = _redef_job(None)
        return dict(violates=any(b for v, b in r), result=r)
    idxs = obj['idxs'] if 'idxs' in obj else [obj['idx']]
    # a native crash ends the replay process itself (non-zero exit status)
    r = _gen_job((idxs, obj.get('thorough', False), obj['wiring']))
    return dict(violates=any(x[2] for x in r), result=r)
