"""C05 - results do not depend on neighbour algorithm, cache, threads or
re-ordering.

E4b: all option vectors of the Application front end within a Hamming bound
of the default (plus the full nnps x cache and nnps x sort-gids planes;
thorough: the full product) on three tiny problems; differential oracle on
the final particle state matched by particle identity.  See DESIGN.md C05.
"""
import itertools
import os
import shutil
import tempfile

import numpy as np

from vlib.runner import Result, Violation
from vlib.pool import map_jobs, Crash

NNPS = ['ll', 'box', 'sh', 'esh', 'ci', 'sfc', 'tree', 'comp_tree',
        'strat_hash', 'strat_sfc']
THREADS = [1, 2, 3, 4, 8, 16]
REORDER = [0, 1, 3]
PROBLEMS = ['drop', 'tank', 'periodic', 'collide', 'gtvf']
# problems run on a sub-set of the option vectors only
REDUCED = {'gtvf': lambda c: not c['openmp'] and (
    c['nnps'] in ('ll', 'box', 'sfc', 'tree') and
    (c['reorder'] or c['cache'] or c == DEFAULT or c['sort']))}
DEFAULT = dict(nnps='ll', cache=False, openmp=False, threads=1, reorder=0,
               sort=False, table=0)


def run_app(problem, cfg, tmpdir):
    """Runs one configuration in this process; returns dict name ->
    {prop: array sorted by identity}."""
    from compyle.config import get_config
    from pysph.base.nnps_base import set_number_of_threads
    from vlib.apps import make_app
    get_config().use_openmp = bool(cfg['openmp'])
    set_number_of_threads(cfg['threads'] if cfg['openmp'] else 1)
    argv = ['--nnps', cfg['nnps'], '--disable-output', '--quiet',
            '--directory', tmpdir, '--reorder-freq', str(cfg['reorder'])]
    if cfg.get('table'):
        argv += ['--spatial-hash-table-size', str(cfg['table'])]
    if cfg['cache']:
        argv.append('--cache-nnps')
    if cfg['sort']:
        argv.append('--sort-gids')
    if not cfg['openmp']:
        argv.append('--no-openmp')
    app = make_app(problem)(fname='c05_' + problem, output_dir=tmpdir)
    if not cfg['cache']:
        app.cache_nnps = False
    app.run(argv)
    out = {}
    for pa in app.particles:
        ident = pa.get('ident', only_real_particles=True)
        order = np.argsort(ident)
        d = {}
        for p in ('x', 'y', 'u', 'v', 'rho', 'p', 'au', 'av', 'ident'):
            if p in pa.properties:
                d[p] = pa.get(p, only_real_particles=True)[order].copy()
        if 'sid' in pa.properties:
            d['sid'] = pa.get('sid', only_real_particles=True).reshape(
                -1, 3)[order].ravel().copy()
        out[pa.name] = d
    return out, app.solver.count


def _job(args):
    problem, cfgs = args
    import io
    import contextlib
    tmp = tempfile.mkdtemp(prefix='c05_')
    res = []
    try:
        for cfg in cfgs:
            buf = io.StringIO()
            try:
                with contextlib.redirect_stdout(buf):
                    out, count = run_app(problem, cfg, tmp)
                res.append((cfg, out, count, None))
            except SystemExit as e:
                res.append((cfg, None, 0, 'SystemExit(%r)' % (e.code,)))
            except NotImplementedError as e:
                # a loud refusal of an unsupported combination
                res.append((cfg, None, 0, 'UNSUPPORTED ' + str(e)[:80]))
            except Exception as e:  # noqa
                import traceback
                res.append((cfg, None, 0, traceback.format_exc()[-300:]))
    finally:
        shutil.rmtree(tmp, ignore_errors=True)
    return problem, res


_CHILD = '''
import pickle, sys
sys.path.insert(0, %r)
from vlib import build
build.activate()
from checks.c05_config_independence import run_app
import io, contextlib
buf = io.StringIO()
with contextlib.redirect_stdout(buf):
    out, count = run_app(%r, %r, %r)
pickle.dump((out, count), open(%r, 'wb'))
'''


def _hashseed_job(args):
    """The same configuration in a fresh interpreter with another
    string-hash seed (the harness itself runs with PYTHONHASHSEED=0)."""
    problem, cfg, hseed = args
    import pickle
    import subprocess
    import sys
    tmp = tempfile.mkdtemp(prefix='c05h_')
    try:
        res = os.path.join(tmp, 'res.pkl')
        verif = os.path.dirname(os.path.dirname(os.path.abspath(__file__)))
        code = _CHILD % (verif, problem, cfg, tmp, res)
        env = dict(os.environ, PYTHONHASHSEED=str(hseed), VERIF_NOSYNC='1')
        r = subprocess.run([sys.executable, '-c', code], env=env,
                           stdout=subprocess.PIPE, stderr=subprocess.STDOUT,
                           timeout=2400)
        if r.returncode != 0 or not os.path.exists(res):
            return problem, cfg, hseed, None, r.stdout.decode()[-400:]
        out, count = pickle.load(open(res, 'rb'))
        return problem, cfg, hseed, out, None
    finally:
        shutil.rmtree(tmp, ignore_errors=True)


def cfg_key(c):
    return tuple(sorted(c.items()))


def configs(thorough, seed):
    out = []

    def add(**kw):
        c = dict(DEFAULT)
        c.update(kw)
        if not c['openmp']:
            c['threads'] = 1
        if c not in out:
            out.append(c)
    add()
    for n in NNPS:
        for cache in (False, True):
            add(nnps=n, cache=cache)
        for sort in (False, True):
            add(nnps=n, sort=sort)
        add(nnps=n, sort=True, cache=True)
    # tiny hash tables: many occupied cells share a bucket
    for n in ('sh', 'esh', 'strat_hash'):
        add(nnps=n, table=7)
        add(nnps=n, table=5, cache=True, sort=True)
    for t in THREADS:
        add(openmp=True, threads=t)
        add(openmp=True, threads=t, sort=True)
        add(openmp=True, threads=t, cache=True)
    for r in REORDER:
        add(reorder=r)
        add(reorder=r, cache=True)
    if thorough:
        for n in NNPS:
            for cache in (False, True):
                for sort in (False, True):
                    for r in REORDER:
                        add(nnps=n, cache=cache, sort=sort, reorder=r)
                        for t in (2, 3, 16):
                            add(nnps=n, cache=cache, sort=sort, reorder=r,
                                openmp=True, threads=t)
    else:
        # two-deviation combinations: every algorithm with threads (the
        # thread count also selects e.g. the octree builder) and with
        # re-ordering; the third deviation rotates with the seed
        for n in NNPS:
            for t in (2, 16):
                add(nnps=n, openmp=True, threads=t, sort=bool(seed % 2))
            add(nnps=n, openmp=True, threads=(3, 4, 8)[seed % 3],
                sort=not bool(seed % 2), cache=True)
            for r in (1, 3):
                add(nnps=n, reorder=r, cache=bool((seed + r) % 2))
    return out


def rel_diff(a, b):
    worst = 0.0
    where = None
    for name in a:
        for p in a[name]:
            x, y = a[name][p], b[name][p]
            if x.shape != y.shape:
                return float('inf'), '%s.%s shape' % (name, p)
            nrm = max(float(np.linalg.norm(x)), 1e-300)
            d = float(np.linalg.norm(x - y)) / nrm
            if not np.isfinite(d):
                return float('inf'), '%s.%s non-finite' % (name, p)
            if d > worst:
                worst, where = d, '%s.%s' % (name, p)
    return worst, where


def identical(a, b):
    for name in a:
        for p in a[name]:
            if not np.array_equal(a[name][p], b[name][p]):
                return False
    return True


def run(ctx):
    cfgs = configs(ctx.thorough, ctx.seed)
    jobs = []
    for prob in PROBLEMS:
        # group by (openmp) so that each worker compiles at most two modules;
        # every configuration is also repeated once (bit reproducibility)
        for omp in (False, True):
            sub = [c for c in cfgs if c['openmp'] == omp and
                   REDUCED.get(prob, lambda c: True)(c)]
            if prob in REDUCED:
                for n in ('ll', 'box'):
                    for r in (1, 3):
                        for cache in (False, True):
                            c = dict(DEFAULT, nnps=n, reorder=r, cache=cache)
                            if not omp and c not in sub:
                                sub.append(c)
            if not sub:
                continue
            k = max(1, len(sub) // 6)
            for i in range(0, len(sub), k):
                chunk = sub[i:i + k]
                jobs.append((prob, chunk + chunk[:2]))
    hcfg = dict(DEFAULT, sort=True)
    hjobs = [(prob, hcfg, hs) for prob in PROBLEMS if prob not in REDUCED
             for hs in (1 + ctx.seed, 2 + ctx.seed)]
    both = map_jobs(lambda j: _job(j[1]) if j[0] == 'cfg' else
                    _hashseed_job(j[1]),
                    [('cfg', j) for j in jobs] + [('hash', j) for j in hjobs],
                    ctx.ncpu, job_timeout=3000)
    res = both[:len(jobs)]
    hres = both[len(jobs):]
    viol = {}
    nrun = 0
    per = {}
    unsupported = set()
    for job, r in zip(jobs, res):
        if isinstance(r, Crash):
            viol.setdefault('config:%s:crash' % job[0], (
                'worker crashed (%s) running one of %r' % (r.reason, job[1][:3]),
                dict(problem=job[0], cfgs=job[1])))
            continue
        prob, lst = r
        for cfg, out, count, err in lst:
            nrun += 1
            if err is not None and err.startswith('UNSUPPORTED'):
                unsupported.add((cfg['nnps'], 'reorder' if cfg['reorder']
                                 else 'other', err[12:]))
                continue
            if err is not None:
                viol.setdefault('config:%s:error:nnps=%s' % (prob, cfg['nnps']),
                                (err, dict(problem=prob, cfg=cfg)))
                continue
            per.setdefault(prob, []).append((cfg, out, count))
    ndist = 0
    for prob, lst in per.items():
        ref_cfg, ref, ref_count = [x for x in lst
                                   if x[0] == DEFAULT][0] if any(
            x[0] == DEFAULT for x in lst) else lst[0]
        seen = {}
        sorted_ref = None
        for cfg, out, count in lst:
            k = cfg_key(cfg)
            if k in seen:
                # repeated run: bit reproducible
                if not identical(seen[k], out):
                    viol.setdefault('config:%s:not-reproducible:nnps=%s' % (
                        prob, cfg['nnps']), (
                        'two runs with identical options differ: %r' % cfg,
                        dict(problem=prob, cfg=cfg)))
                continue
            seen[k] = out
            ndist += 1
            if count != ref_count:
                viol.setdefault('config:%s:step-count' % prob, (
                    '%d steps vs %d: %r' % (count, ref_count, cfg),
                    dict(problem=prob, cfg=cfg)))
            d, where = rel_diff(ref, out)
            if d > 1e-9:
                dev = [k2 for k2 in cfg if cfg[k2] != DEFAULT[k2]]
                viol.setdefault('config:%s:differs:nnps=%s%s' % (
                    prob, cfg['nnps'], ':reorder' if cfg['reorder'] else ''),
                    ('final state differs from the default configuration by '
                     '%.3g (relative, %s) with %r' % (d, where, cfg),
                     dict(problem=prob, cfg=cfg)))
            if cfg['sort'] and not cfg['reorder']:
                if sorted_ref is None:
                    sorted_ref = (cfg, out)
                elif not identical(sorted_ref[1], out):
                    viol.setdefault(
                        'config:%s:sorted-not-bit-identical:nnps=%s' % (
                            prob, cfg['nnps']),
                        ('with --sort-gids the final state is not bit '
                         'identical between %r and %r' % (sorted_ref[0], cfg),
                         dict(problem=prob, cfg=cfg, other=sorted_ref[0])))
    # other string-hash seeds: bit-identical to the in-process run
    for hj, r in zip(hjobs, hres):
        prob = hj[0]
        if isinstance(r, Crash):
            viol.setdefault('config:%s:hashseed:crash' % prob, (
                r.reason, dict(problem=prob, cfg=hcfg, hashseed=hj[2])))
            continue
        _, _, hs, out, err = r
        nrun += 1
        if err is not None:
            viol.setdefault('config:%s:hashseed:error' % prob, (
                err, dict(problem=prob, cfg=hcfg, hashseed=hs)))
            continue
        mine = [o for c, o, n in per.get(prob, []) if c == hcfg]
        if mine and not identical(mine[0], out):
            viol.setdefault('config:%s:not-reproducible:hashseed' % prob, (
                'the run with identical options in a fresh process with '
                'PYTHONHASHSEED=%d is not bit-identical to the run with '
                'PYTHONHASHSEED=0' % hs,
                dict(problem=prob, cfg=hcfg, hashseed=hs)))
    vs = [Violation(k, w, rep) for k, (w, rep) in sorted(viol.items())]
    cov = dict(evaluations=nrun, distinct_nontrivial=ndist,
               configurations_per_problem=len(cfgs), problems=PROBLEMS,
               exhaustive=True, samples=[cfgs[1], cfgs[-1]],
               refused_combinations=sorted(unsupported),
               rule='option vector (nnps in 10 algorithms, cache, OpenMP with '
                    '1-16 threads, reorder frequency 0/1/3, sort-gids): '
                    'everything at distance <=1 from the default, the full '
                    'nnps x cache and nnps x sort-gids planes, thread x '
                    'sort/cache planes, plus distance-2/3 '
                    'combinations [every nnps x {2,16 threads}, x one more '
                    'thread count with cache, x reorder 1/3] (thorough: '
                    'nnps x cache x sort x reorder '
                    'x {serial, 2, 3, 16 threads}); 4 problems (free '
                    'surface, wall bounded, doubly periodic with two '
                    'arrays, two separate blocks that start out of '
                    'kernel range and then interact), 6 steps; every '
                    'chunk repeats two runs; the default sorted '
                    'configuration is also run in fresh processes with '
                    'other string-hash seeds')
    assumptions = ['thread interleavings inside one run are not enumerated '
                   '(static OpenMP schedule: thread counts are)',
                   'agreement up to summation order: 1e-9 norm-wise relative '
                   'per property after 6 steps',
                   'GPU back-ends and MPI not covered']
    return Result('exploration', cov, assumptions, vs)


def replay(ctx, obj):
    if 'hashseed' in obj:
        tmp = tempfile.mkdtemp(prefix='c05_')
        try:
            a, ca = run_app(obj['problem'], obj['cfg'], tmp)
        finally:
            shutil.rmtree(tmp, ignore_errors=True)
        r = _hashseed_job((obj['problem'], obj['cfg'], obj['hashseed']))
        return dict(violates=r[3] is None or not identical(a, r[3]),
                    error=r[4])
    tmp = tempfile.mkdtemp(prefix='c05_')
    try:
        a, ca = run_app(obj['problem'], dict(DEFAULT), tmp)
        b, cb = run_app(obj['problem'], obj['cfg'], tmp)
    finally:
        shutil.rmtree(tmp, ignore_errors=True)
    d, where = rel_diff(a, b)
    return dict(violates=d > 1e-9, diff=d, where=where)
