"""C14 - interpolation of particle data obeys its defining formulas.

E2 (all histories of <=3 interface calls: new points / new arrays / moved
particles) over E4a inputs (methods x kernels x dims x small source sets),
against a NumPy evaluation of the defining sums.  See DESIGN.md C14.
"""
import itertools
import math

import numpy as np

from vlib.runner import Result, Violation
from vlib.pool import map_jobs, Crash

METHODS = ['shepard', 'sph', 'splash', 'splash_norm', 'order1']
KERNELS = [('CubicSpline', 1), ('CubicSpline', 2), ('CubicSpline', 3),
           ('Gaussian', 1), ('Gaussian', 2), ('Gaussian', 3),
           ('WendlandQuintic', 2), ('WendlandQuintic', 3),
           ('QuinticSpline', 2)]
H0 = 0.5


def lattice(dim, n, shift=0.0):
    pts = []
    rng = [range(n) if a < dim else [0] for a in range(3)]
    for i in rng[0]:
        for j in rng[1]:
            for k in rng[2]:
                q = i + n * j + n * n * k
                off = [0.031 * math.sin(1.0 + 2.3 * q + shift),
                       0.027 * math.cos(0.7 + 1.9 * q + shift),
                       0.035 * math.sin(2.1 + 3.1 * q + shift)]
                pts.append(tuple((c * H0 + off[a] + shift * 0.1) if a < dim
                                 else 0.0 for a, c in enumerate((i, j, k))))
    return pts


def make_sources(dim, variant, two):
    """variant changes positions/values but keeps max(h) (the target
    smoothing length is fixed when the interpolator is created)."""
    from pysph.base.utils import get_particle_array
    n = {1: 5, 2: 3, 3: 2}[dim]
    pts = lattice(dim, n, shift=0.37 * variant)
    names = ['a', 'b'] if two else ['a']
    out = []
    for ai, nm in enumerate(names):
        pp = pts[ai::len(names)]
        k = len(pp)
        idx = np.arange(k) + 3 * ai + variant
        h = np.array([H0 * (1.0 if i % 3 else 1.5) for i in idx])
        if not any(abs(x - 1.5 * H0) < 1e-12 for x in h):
            h[0] = 1.5 * H0
        pa = get_particle_array(
            name=nm, x=[p[0] for p in pp], y=[p[1] for p in pp],
            z=[p[2] for p in pp], h=h, m=1.0 + 0.25 * (idx % 4),
            rho=2.0 + 0.5 * (idx % 3))
        pa.add_property('f', data=3.0 + np.sin(1.3 * idx) * 2.0)
        pa.add_property('cst')
        pa.add_property('lin')
        out.append(pa)
    return out


def make_targets(dim, variant, periodic=False):
    n = {1: 7, 2: 4, 3: 3}[dim]
    pts = lattice(dim, n, shift=0.11 + 0.5 * variant)
    # a far-away point: no source in range
    far = tuple((25.0 if a < dim else 0.0) for a in range(3))
    pts = pts[::2] + ([far] if not periodic else [])
    if periodic:
        pts = [p for p in pts if all(-0.2 < c < 1.7 for c in p[:dim])]
    return (np.array([p[0] for p in pts]), np.array([p[1] for p in pts]),
            np.array([p[2] for p in pts]))


def with_edge_target(tg, srcs, kernel):
    """tg plus one target that sees a single source, and that one close to
    the edge of its support (a very small, but not negligible, total
    weight): beyond the source with the largest x."""
    best = None
    for pa in srcs:
        x = pa.get('x', only_real_particles=False)
        for i in range(len(x)):
            if best is None or x[i] > best[0]:
                best = (float(x[i]), float(pa.y[i]), float(pa.z[i]),
                        float(pa.h[i]))
    th = max(float(pa.h.max()) for pa in srcs)
    d = 0.97 * kernel.radius_scale * 0.5 * (th + best[3])
    return (np.append(tg[0], best[0] + d), np.append(tg[1], best[1]),
            np.append(tg[2], best[2]))


def reference(method, kernel, dim, sources, targets, th, field):
    """Direct evaluation of the defining sums.  field(j-array, values) picks
    the property to interpolate.  Returns array (n,) or (n,4) for order1."""
    rs = kernel.radius_scale
    S = []
    for pa in sources:
        g = lambda p: pa.get(p, only_real_particles=False)
        S.append(dict(x=np.column_stack([g('x'), g('y'), g('z')]), h=g('h'),
                      m=g('m'), rho=g('rho').copy(), f=field(pa)))
    X = np.vstack([s['x'] for s in S])
    Hs = np.concatenate([s['h'] for s in S])
    M = np.concatenate([s['m'] for s in S])
    F = np.concatenate([s['f'] for s in S])
    RHO = np.concatenate([s['rho'] for s in S])

    def W(xij, r, h):
        return kernel.kernel(list(xij), r, h)

    def GW(xij, r, h):
        g = [0.0, 0.0, 0.0]
        kernel.gradient(list(xij), r, h, g)
        return np.array(g)
    ns = len(X)
    if method == 'order1':
        # summation density over all sources first (all particles)
        RHO = np.zeros(ns)
        for j in range(ns):
            for k in range(ns):
                d = X[j] - X[k]
                r = math.sqrt(float(np.dot(d, d)))
                if r < rs * max(Hs[j], Hs[k]):
                    RHO[j] += M[k] * W(d, r, 0.5 * (Hs[j] + Hs[k]))
    T = np.column_stack(targets)
    nt = len(T)
    res = np.zeros((nt, 4)) if method == 'order1' else np.zeros(nt)
    info = []
    for i in range(nt):
        nb = []
        for j in range(ns):
            d = T[i] - X[j]
            r = math.sqrt(float(np.dot(d, d)))
            if r < rs * max(th, Hs[j]):
                nb.append((j, d, r))
        near_edge = any(abs(r - rs * max(th, Hs[j])) < 1e-9 for j, d, r in
                        [(j, T[i] - X[j], math.sqrt(float(np.dot(
                            T[i] - X[j], T[i] - X[j])))) for j in range(ns)])
        vals = [F[j] for j, d, r in nb]
        if method == 'shepard':
            sw = sum(W(d, r, 0.5 * (th + Hs[j])) for j, d, r in nb)
            swf = sum(W(d, r, 0.5 * (th + Hs[j])) * F[j] for j, d, r in nb)
            res[i] = swf / sw if sw > 1e-12 else swf
            # contributors are the sources with a positive weight (a source
            # inside the search radius rs*max(h) can lie outside the support
            # of the kernel evaluated at the mean h)
            vals = [F[j] for j, d, r in nb
                    if W(d, r, 0.5 * (th + Hs[j])) > 0.0]
            if 0.0 < sw <= 1e-9:
                # total weight at (or within rounding of) the documented
                # normalisation threshold: the mean-value side checks do
                # not apply (the value itself is still compared)
                vals = None
        elif method == 'sph':
            res[i] = sum(M[j] / RHO[j] * F[j] * W(d, r, 0.5 * (th + Hs[j]))
                         for j, d, r in nb)
        elif method == 'splash':
            res[i] = sum(M[j] / RHO[j] * F[j] * W(d, r, th)
                         for j, d, r in nb)
        elif method == 'splash_norm':
            su = sum(M[j] / RHO[j] * W(d, r, Hs[j]) for j, d, r in nb)
            sf = sum(M[j] / RHO[j] * W(d, r, Hs[j]) * F[j] for j, d, r in nb)
            res[i] = sf / su if su > 1e-12 else sf
        else:
            n = dim + 1
            A = np.zeros((4, 4))
            b = np.zeros(4)
            for j, d, r in nb:
                hij = 0.5 * (th + Hs[j])
                V = M[j] / RHO[j]
                w = W(d, r, hij)
                gw = GW(d, r, hij)
                row0 = np.array([w, -d[0] * w, -d[1] * w, -d[2] * w]) * V
                A[0] += row0
                for c in range(3):
                    A[1 + c] += np.array([gw[c], -d[0] * gw[c], -d[1] * gw[c],
                                          -d[2] * gw[c]]) * V
                b += np.array([w, gw[0], gw[1], gw[2]]) * V * F[j]
            A = A[:n, :n]
            cond = np.linalg.cond(A) if nb else np.inf
            if nb and cond < 1e8:
                sol = np.linalg.solve(A, b[:n])
                res[i, :n] = sol
            info.append((cond, near_edge))
            continue
        info.append((vals, near_edge))
    return res, info


def run_history(method, kname, dim, two, ops, periodic=False):
    from compyle.config import get_config
    get_config().use_openmp = False
    import pysph.base.kernels as K
    from pysph.tools.interpolator import Interpolator
    from vlib.build import reset_group_counter
    reset_group_counter()
    kernel = getattr(K, kname)(dim=dim)
    srcs = make_sources(dim, 0, two)
    srcs0 = srcs
    tg = make_targets(dim, 0, periodic)
    if not periodic:
        tg = with_edge_target(tg, srcs, kernel)
    th = max(float(pa.h.max()) for pa in srcs)
    dom = None
    if periodic:
        from pysph.base.nnps import DomainManager
        kw = dict(xmin=-0.25, xmax=1.75, periodic_in_x=True)
        if dim > 1:
            kw.update(ymin=-0.25, ymax=1.75, periodic_in_y=True)
        if dim > 2:
            kw.update(zmin=-0.25, zmax=1.75, periodic_in_z=True)
        dom = DomainManager(**kw)
    ip = Interpolator(srcs, x=tg[0], y=tg[1], z=tg[2], kernel=kernel,
                      method=method, domain_manager=dom)
    probs = []
    nev = 0
    vs = vt = 0
    for step, op in enumerate(['init'] + list(ops)):
        if op == 'points':
            vt += 1
            tg = make_targets(dim, vt, periodic)
            nt_ = len(tg[0])
            fac = [f for f in (2, 3, 5) if nt_ % f == 0 and nt_ // f >= 2]
            if vt % 2 == 0:
                # coordinates given as integer arrays (np.mgrid[0:3, 0:2] is
                # what a user types for a coarse grid)
                # (periodic box [-0.25, 1.75): targets stay inside it)
                k = {1: 3, 2: 2, 3: 2}[dim] if not periodic else 2
                rng = [np.arange(k) if a < dim else np.arange(1)
                       for a in range(3)]
                X, Y, Z = np.meshgrid(*rng, indexing='ij')
                ti = [X.ravel().astype(np.int64), Y.ravel().astype(np.int64),
                      Z.ravel().astype(np.int64)]
                ip.set_interpolation_points(x=ti[0], y=ti[1], z=ti[2])
                tg = tuple(t.astype(float) for t in ti)
            elif vt % 2 == 1 and fac:
                # the same points as Fortran-ordered (not C-contiguous) 2-D
                # arrays: results are reported in the logical order
                sh = (fac[0], nt_ // fac[0])
                nc = [np.asfortranarray(a.reshape(sh)) for a in tg]
                ip.set_interpolation_points(x=nc[0], y=nc[1], z=nc[2])
            else:
                ip.set_interpolation_points(x=tg[0], y=tg[1], z=tg[2])
        elif op == 'arrays':
            vs += 1
            srcs = make_sources(dim, vs, two)
            ip.update_particle_arrays(srcs)
        elif op == 'back':
            # back to the very array objects the interpolator was built
            # with (re-loading the first time step of a series)
            srcs = srcs0
            ip.update_particle_arrays(srcs0)
        elif op == 'move':
            for pa in srcs:
                x = pa.get('x', only_real_particles=False)
                x += 0.125 if not periodic else 0.03125
                if dim > 1:
                    y = pa.get('y', only_real_particles=False)
                    y -= 0.0625
            ip.update()
        elif op == 'vals':
            # the interpolated property is overwritten in place; no update()
            for pa in srcs:
                f = pa.get('f', only_real_particles=False)
                f[:] = 3.0 - 1.75 * f
        elif op == 'grow':
            # smoothing lengths grown in place, then update(): neighbours
            # must be searched with the new, larger radius
            for pa in srcs:
                pa.get('h', only_real_particles=False)[:] *= 1.75
            ip.update()
        # the smoothing length given to the target points (the largest
        # source h when the target array was last created) is an input of
        # the defining sums, not part of the statement: read it
        th = float(ip.pa.get('h', only_real_particles=False)[0])
        if not (th > 0.0 and np.isfinite(th)):
            # the defining sums need a kernel, a kernel needs h > 0
            return [('target-h-not-positive', dict(step=step, op=op,
                                                   h=th))], nev
        # f is interpolated first and last in every step, so that across
        # steps the same property is asked for twice in a row with only the
        # step's operation (new values, moved particles, ...) in between
        for fieldname in ('f', 'const', 'linear', 'f'):
            if fieldname == 'f':
                field = lambda pa: pa.get('f', only_real_particles=False)\
                    .copy()
                got = ip.interpolate('f') if method != 'order1' else \
                    np.column_stack([np.asarray(ip.interpolate(
                        'f', comp=c)).ravel() for c in range(4)])
            elif fieldname == 'const':
                for pa in srcs:
                    if 'cst' not in pa.properties:
                        pa.add_property('cst')
                    pa.get('cst', only_real_particles=False)[:] = 4.25
                field = lambda pa: np.full(pa.get_number_of_particles(), 4.25)
                got = ip.interpolate('cst') if method != 'order1' else \
                    np.column_stack([np.asarray(ip.interpolate(
                        'cst', comp=c)).ravel() for c in range(4)])
            else:
                if method != 'order1':
                    continue
                coef = np.array([1.5, -2.0, 0.75])
                for pa in srcs:
                    if 'lin' not in pa.properties:
                        pa.add_property('lin')
                    g = lambda p: pa.get(p, only_real_particles=False)
                    g('lin')[:] = 2.0 + coef[0] * g('x') + coef[1] * g('y') + \
                        coef[2] * g('z')
                field = lambda pa: pa.get('lin', only_real_particles=False)\
                    .copy()
                got = np.column_stack([np.asarray(ip.interpolate(
                    'lin', comp=c)).ravel() for c in range(4)])
            nev += 1
            want, info = reference(method, kernel, dim, srcs, tg, th, field)
            got = np.asarray(got, dtype=float).reshape(want.shape)
            for i in range(len(want)):
                edge = info[i][1]
                if edge:
                    continue           # a source exactly at the cut-off
                if method == 'order1':
                    cond = info[i][0]
                    if not (cond < 1e6):
                        continue       # ill conditioned: left open
                    tol = 1e-9 * cond * max(1.0, np.abs(want[i]).max())
                    if np.abs(got[i] - want[i]).max() > tol:
                        probs.append(('order1:%s' % fieldname, dict(
                            step=step, op=op, target=i, got=got[i].tolist(),
                            want=want[i].tolist(), cond=cond)))
                        break
                    if fieldname == 'linear':
                        T = np.column_stack(tg)[i]
                        exact = np.array([2.0 + float(np.dot(coef, T))] +
                                         list(coef))[:dim + 1]
                        if np.abs(got[i][:dim + 1] - exact).max() > \
                                1e-8 * cond:
                            probs.append(('order1:linear-not-reproduced',
                                          dict(step=step, op=op, target=i,
                                               got=got[i].tolist(),
                                               exact=exact.tolist())))
                            break
                else:
                    vals = info[i][0]
                    tol = 1e-12 * max(1.0, abs(want[i]))
                    if abs(got[i] - want[i]) > tol:
                        probs.append(('%s:%s' % (method, fieldname), dict(
                            step=step, op=op, target=i, got=float(got[i]),
                            want=float(want[i]))))
                        break
                    if method == 'shepard' and vals is not None:
                        if not vals and got[i] != 0.0:
                            probs.append(('shepard:nonzero-without-source',
                                          dict(step=step, got=float(got[i]))))
                        if vals and not (min(vals) - 1e-12 <= got[i] <=
                                         max(vals) + 1e-12):
                            probs.append(('shepard:outside-min-max', dict(
                                step=step, got=float(got[i]), lo=min(vals),
                                hi=max(vals))))
            if probs:
                return probs, nev
    return probs, nev


def run_evaluator_history(method, kname, dim, ops):
    """The same defining sums through the general purpose SPHEvaluator
    (pysph.tools.sph_evaluator) with the interpolation equations of the
    method: evaluate(); update_particle_arrays(new source and target
    arrays); move + update()."""
    from compyle.config import get_config
    get_config().use_openmp = False
    import pysph.base.kernels as K
    from pysph.base.utils import get_particle_array
    from pysph.tools.sph_evaluator import SPHEvaluator
    import pysph.tools.interpolator as I
    from vlib.build import reset_group_counter
    reset_group_counter()
    kernel = getattr(K, kname)(dim=dim)
    eqcls = dict(shepard=I.InterpolateFunction, sph=I.InterpolateSPH)[method]

    def arrays(variant):
        srcs = make_sources(dim, variant, True)
        for pa in srcs:
            pa.add_property('temp_prop')
            pa.temp_prop[:] = pa.f
        tg = make_targets(dim, variant)
        th = max(float(pa.h.max()) for pa in srcs)
        tpa = get_particle_array(name='interpolate', x=tg[0], y=tg[1],
                                 z=tg[2], h=th * np.ones_like(tg[0]),
                                 number_density=np.zeros_like(tg[0]))
        tpa.add_property('prop')
        return srcs, tpa, tg, th
    srcs, tpa, tg, th = first = arrays(0)
    ev = SPHEvaluator(srcs + [tpa], [eqcls(dest='interpolate',
                                           sources=[p.name for p in srcs])],
                      dim=dim, kernel=kernel)
    probs = []
    nev = 0
    v = 0
    for step, op in enumerate(['init'] + list(ops)):
        if op == 'arrays':
            v += 1
            srcs, tpa, tg, th = arrays(v)
            ev.update_particle_arrays(srcs + [tpa])
        elif op == 'back':
            srcs, tpa, tg, th = first
            ev.update_particle_arrays(srcs + [tpa])
        elif op == 'move':
            for pa in srcs:
                pa.x[:] = pa.x + 0.125
                if dim > 1:
                    pa.y[:] = pa.y - 0.0625
            ev.update()
        ev.evaluate()
        nev += 1
        want, info = reference(method, kernel, dim, srcs, tg, th,
                               lambda pa: pa.get('f', only_real_particles=False
                                                 ).copy())
        got = tpa.get('prop', only_real_particles=False)
        for i in range(len(want)):
            if info[i][1]:
                continue
            if abs(got[i] - want[i]) > 1e-12 * max(1.0, abs(want[i])):
                probs.append(('evaluator:%s' % method, dict(
                    step=step, op=op, target=i, got=float(got[i]),
                    want=float(want[i]))))
                return probs, nev
    return probs, nev


def _ev_job(args):
    method, kname, dim, depth = args
    out = {}
    nev = nh = 0
    for d in range(0, depth + 1):
        for ops in itertools.product(('arrays', 'move', 'back'), repeat=d):
            try:
                pr, n = run_evaluator_history(method, kname, dim, ops)
            except Exception as e:  # noqa
                import traceback
                pr, n = [('evaluator:exception:%s' % type(e).__name__, dict(
                    tb=traceback.format_exc()[-400:]))], 0
            nev += n
            nh += 1
            for kind, det in pr[:1]:
                key = 'interp:%s' % kind
                if key not in out:
                    out[key] = ('%s %r [SPHEvaluator, method=%s kernel=%s '
                                'dim=%d ops=%r]' % (kind, det, method, kname,
                                                    dim, ops),
                                dict(evaluator=True, method=method,
                                     kernel=kname, dim=dim, ops=list(ops)))
    return nev, nh, out


def _job(args):
    method, kname, dim, two, depth = args[:5]
    periodic = args[5] if len(args) > 5 else False
    out = {}
    nev = 0
    nh = 0
    for d in range(0, depth + 1):
        alphabet = ('points', 'arrays', 'move', 'vals', 'back') \
            if periodic else \
            ('points', 'arrays', 'move', 'grow', 'vals', 'back')
        for ops in itertools.product(alphabet, repeat=d):
            try:
                pr, n = run_history(method, kname, dim, two, ops, periodic)
            except Exception as e:  # noqa
                import traceback
                pr, n = [('exception:%s' % type(e).__name__, dict(
                    tb=traceback.format_exc()[-400:]))], 0
            nev += n
            nh += 1
            for kind, det in pr[:1]:
                key = 'interp:%s' % kind
                if key not in out:
                    out[key] = ('%s %r [method=%s kernel=%s dim=%d two=%s '
                                'periodic=%s ops=%r]' % (kind, det, method,
                                                         kname, dim, two,
                                                         periodic, ops),
                                dict(method=method, kernel=kname, dim=dim,
                                     two=two, ops=list(ops),
                                     periodic=periodic))
    return nev, nh, out


def run(ctx):
    depth = 4 if ctx.thorough else 2
    jobs = []
    for method in METHODS:
        for kname, dim in KERNELS:
            jobs.append((method, kname, dim, True, depth))
        jobs.append((method, 'CubicSpline', 2, False, depth))
        jobs.append((method, 'CubicSpline', 2, True, depth, True))
        jobs.append((method, 'Gaussian', 1, True, depth, True))
    ejobs = [(m, k, d, 3 if not ctx.thorough else 5)
             for m in ('shepard', 'sph')
             for k, d in (('CubicSpline', 1), ('CubicSpline', 2),
                          ('Gaussian', 2), ('WendlandQuintic', 3))]
    both = map_jobs(lambda j: _job(j[1]) if j[0] == 'i' else _ev_job(j[1]),
                    [('i', j) for j in jobs] + [('e', j) for j in ejobs],
                    ctx.ncpu, job_timeout=3000)
    res = both[:len(jobs)]
    viol = {}
    nev = nh = 0
    for job, r in zip(ejobs, both[len(jobs):]):
        if isinstance(r, Crash):
            viol.setdefault('interp:evaluator:crash', (
                r.reason, dict(evaluator=True, job=list(job))))
            continue
        a, b, out = r
        nev += a
        nh += b
        for k, x in out.items():
            viol.setdefault(k, x)
    for job, r in zip(jobs, res):
        if isinstance(r, Crash):
            viol.setdefault('interp:crash', (r.reason, dict(job=list(job))))
            continue
        a, b, out = r
        nev += a
        nh += b
        for k, x in out.items():
            viol.setdefault(k, x)
    vs = [Violation(k, w, rep) for k, (w, rep) in sorted(viol.items())]
    cov = dict(states=nh, transitions=nev, traces_validated_against_impl=nh,
               histories=nh, evaluations=nev, depth=depth, exhaustive=True,
               samples=[dict(method='shepard', kernel='CubicSpline', dim=2,
                             ops=['arrays', 'points'])],
               rule='5 methods x 9 kernel/dim pairs (two source arrays; one '
                    'array for CubicSpline 2-D) x every history of <=%d '
                    'calls from {set_interpolation_points(new points), '
                    'update_particle_arrays(new arrays), move particles + '
                    'update()}; after every call the property f, a constant '
                    'field and (order1) a linear field are interpolated and '
                    'compared with a NumPy evaluation of the defining sums '
                    'on the current data; in addition the shepard and sph '
                    'equations through SPHEvaluator (4 kernel/dim pairs): '
                    'every history of <=3 (thorough 5) of '
                    '{update_particle_arrays(new sources and targets), move '
                    '+ update()}, evaluate() after each' % depth)
    assumptions = ['targets with a source exactly at the cut-off are skipped',
                   'order1 is judged only where the moment matrix has '
                   'condition number < 1e6',
                   'replacement arrays keep max(h): the smoothing length of '
                   'the target points is fixed at creation',
                   'periodic domains: CubicSpline 2-D and Gaussian 1-D only']
    return Result('model_checking', cov, assumptions, vs)


def replay(ctx, obj):
    if obj.get('evaluator'):
        pr, n = run_evaluator_history(obj['method'], obj['kernel'],
                                      obj['dim'], tuple(obj['ops']))
        return dict(violates=bool(pr), problems=pr[:3])
    pr, n = run_history(obj['method'], obj['kernel'], obj['dim'], obj['two'],
                        tuple(obj['ops']), obj.get('periodic', False))
    return dict(violates=bool(pr), problems=pr[:3])
