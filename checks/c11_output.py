"""C11 - saved output loads back to the same particles and solver data.

E4: option product (format x compress x detailed_output x only_real) x an
enumerated family of particle-array lists (0-2 arrays, 0/1/3 particles, tag
patterns, every C type x stride x default, output-list shapes, constants).
See DESIGN.md section 4, C11.
"""
import itertools
import os
import shutil
import tempfile

import numpy as np

from vlib.runner import Result, Violation
from vlib.pool import map_jobs, Crash

CTYPES = ['double', 'float', 'int', 'long', 'unsigned int']
NPT = {'double': np.float64, 'float': np.float32, 'int': np.int32,
       'long': np.int64, 'unsigned int': np.uint32}


def build_array(name, n, tags, propset, outlist, consts):
    """propset: list of (pname, ctype, stride, default)."""
    from pysph.base.particle_array import ParticleArray
    pa = ParticleArray(name=name)
    for k, (p, t, s, d) in enumerate(propset):
        if n:
            data = np.array([(10 * k + 3 * i + j + 1) % 97
                             for i in range(n) for j in range(s)])
            pa.add_property(p, type=t, stride=s, default=d,
                            data=data.astype(NPT[t]))
        else:
            pa.add_property(p, type=t, stride=s, default=d)
    if n:
        pa.get('tag', only_real_particles=False)[:] = tags
        pa.align_particles()
    for cn, cv in consts.items():
        pa.add_constant(cn, cv)
    if outlist is not None:
        pa.set_output_arrays(list(outlist))
    return pa


def describe(pa):
    meta = {}
    for p, arr in pa.properties.items():
        meta[p] = (arr.get_c_type(), pa.stride.get(p, 1),
                   float(pa.default_values[p]))
    consts = {c: pa.constants[c].get_npy_array().tolist()
              for c in pa.constants}
    return meta, consts


def records(pa, props, count):
    """Multiset of per-particle records over the given props."""
    cols = []
    for p in sorted(props):
        s = pa.stride.get(p, 1)
        a = pa.get(p, only_real_particles=False)[:count * s]
        cols.append(np.asarray(a, dtype=float).reshape(count, s))
    if not cols:
        return []
    m = np.hstack(cols)
    return sorted(map(tuple, m.tolist()))


def roundtrip(arrays, fmt, compress, detailed, only_real, sdata, tmpdir,
              version=2):
    from pysph.solver.utils import dump, load, dump_v1
    fn = os.path.join(tmpdir, 'case.%s' % fmt)
    if os.path.exists(fn):
        os.remove(fn)
    if version == 1:
        dump_v1(fn, arrays, sdata, detailed_output=detailed,
                only_real=only_real)
    else:
        dump(fn, arrays, sdata, detailed_output=detailed,
             only_real=only_real, compress=compress)
    return load(fn)


def judge(arrays, loaded, detailed, only_real, sdata, version=2):
    probs = []
    sd = loaded['solver_data']
    for k, v in sdata.items():
        if k not in sd or not np.all(np.asarray(sd[k]) == np.asarray(v)):
            probs.append(('solver-data', 'solver_data[%r]=%r, dumped %r' % (
                k, sd.get(k), v)))
    if set(sd) != set(sdata):
        probs.append(('solver-data', 'keys %r vs %r' % (sorted(sd),
                                                        sorted(sdata))))
    la = loaded['arrays']
    if set(la) != set(a.name for a in arrays):
        probs.append(('array-names', '%r vs %r' % (sorted(la), sorted(
            a.name for a in arrays))))
        return probs
    for pa in arrays:
        lp = la[pa.name]
        meta, consts = describe(pa)
        lmeta, lconsts = describe(lp)
        if lp.name != pa.name:
            probs.append(('name', '%r vs %r' % (lp.name, pa.name)))
        out = list(pa.output_property_arrays)
        stored = set(meta) if (detailed or not out) else set(out)
        count = pa.num_real_particles if only_real else \
            pa.get_number_of_particles()
        if version == 1:
            # v1 files carry no meta data: values of the stored arrays only
            for p in stored:
                if p not in lmeta:
                    probs.append(('v1:missing-property', p))
            common = [p for p in stored if p in lmeta]
            # strides are not recorded in v1: compare flat data
            for p in common:
                s = meta[p][1]
                want = np.asarray(pa.get(p, only_real_particles=False)
                                  [:count * s], dtype=float)
                got = np.asarray(lp.get(p, only_real_particles=False),
                                 dtype=float)
                if s == 1 and (len(got) != len(want) or
                               sorted(got.tolist()) != sorted(want.tolist())):
                    probs.append(('v1:values', '%s: %r vs %r' % (
                        p, got.tolist(), want.tolist())))
            continue
        if set(lmeta) != set(meta):
            probs.append(('property-set', '%s: loaded %r, dumped %r' % (
                pa.name, sorted(lmeta), sorted(meta))))
            continue
        for p in sorted(meta):
            t, s, d = meta[p]
            lt, ls, ld = lmeta[p]
            kind = 'stored' if p in stored else 'unstored'
            if lt != t:
                probs.append(('ctype:' + kind, '%s.%s: %s vs %s' % (
                    pa.name, p, lt, t)))
            if ls != s:
                probs.append(('stride:' + kind, '%s.%s: %r vs %r' % (
                    pa.name, p, ls, s)))
            if ld != d:
                probs.append(('default:' + kind, '%s.%s: %r vs %r' % (
                    pa.name, p, ld, d)))
        if set(lconsts) != set(consts) or any(
                lconsts[c] != consts[c] for c in consts if c in lconsts):
            probs.append(('constants', '%s: loaded %r, dumped %r' % (
                pa.name, lconsts, consts)))
        lout = set(lp.output_property_arrays)
        allp = set(meta)
        if lout != set(out):
            probs.append(('output-list:%s' % ('detailed' if detailed
                                              else 'brief'),
                          '%s: loaded output arrays %r, dumped %r' % (
                              pa.name, sorted(lout), sorted(out))))
        # values of stored properties for the stored particles
        ok_props = [p for p in stored if lmeta[p][1] == meta[p][1]]
        ln = lp.get_number_of_particles()
        for p in ok_props:
            s = meta[p][1]
            if lp.properties[p].length != ln * s:
                probs.append(('length', '%s.%s has %d values for %d particles '
                              'x stride %d' % (pa.name, p,
                                               lp.properties[p].length, ln,
                                               s)))
        if ln != count:
            probs.append(('particle-count', '%s: loaded %d particles, dumped '
                          '%d (only_real=%s)' % (pa.name, ln, count,
                                                 only_real)))
        elif count:
            want = records(pa, ok_props, count)
            got = records(lp, ok_props, count)
            if want != got:
                probs.append(('values', '%s: loaded records %r, dumped %r' % (
                    pa.name, got[:3], want[:3])))
    return probs


def array_family(thorough):
    """Yields (label, builder) where builder() -> list of arrays."""
    fam = []
    props_small = [('x', 'double', 1, 0.0), ('f3', 'float', 3, 1.5),
                   ('i', 'int', 1, 7), ('l', 'long', 1, 0),
                   ('u3', 'unsigned int', 3, 2), ('d0', 'double', 1, -2.5)]
    props_all = [('%s%d%s' % (t[0], s, 'n' if d else 'z'), t, s, d)
                 for t in CTYPES for s in (1, 3) for d in (0, 3)]
    outs = [None, ('x',), ('x', 'f3', 'i'), ('u3', 'tag')]
    for n, tags in ((0, []), (1, [0]), (3, [0, 0, 0]), (3, [0, 2, 0]),
                    (3, [2, 1, 2])):
        for out in outs:
            for consts in ({}, {'c1': [2.5], 'c4': [1., 2., 3., 4.]},
                           {'c0': [], 'c200': [0.5 * i for i in range(200)]}):
                fam.append(('one:n%d:%s:%s:%s' % (n, ''.join(map(str, tags)),
                                                  out, len(consts) and
                                                  sorted(consts)[0]),
                            [('a', n, tags, props_small, out, consts)]))
    # every type x stride x default at once
    for n, tags in ((0, []), (3, [0, 2, 0])):
        for out in (None, tuple(p[0] for p in props_all[::3])):
            fam.append(('alltypes:n%d:%s' % (n, bool(out)),
                        [('a', n, tags, props_all, out, {'k': [1.0]})]))
    # two arrays with different constants and properties
    for (n1, t1), (n2, t2) in (((3, [0, 0, 2]), (1, [0])),
                               ((0, []), (3, [0, 2, 0])),
                               ((1, [2]), (0, []))):
        fam.append(('two:%d:%d' % (n1, n2),
                    [('fluid', n1, t1, props_small, ('x', 'i'),
                      {'cm': [1., 2., 3.], 'tot': [5.0]}),
                     ('body', n2, t2, props_small[:4], None,
                      {'cm': [7., 8., 9.]})]))
        fam.append(('two-noconst:%d:%d' % (n1, n2),
                    [('fluid', n1, t1, props_small, None, {}),
                     ('body', n2, t2, props_small[:3], ('x',),
                      {'cm': [7., 8., 9.]})]))
    fam.append(('none', []))
    if thorough:
        # more particle counts / tag patterns x every output list x constants
        for n, tags in ((2, [2, 0]), (4, [0, 1, 2, 0]), (5, [2, 2, 0, 0, 1]),
                        (4, [1, 1, 1, 1])):
            for out in outs + [('d0',), ('f3', 'l', 'u3'),
                               tuple(p[0] for p in props_small)]:
                for consts in ({}, {'c1': [2.5]},
                               {'c1': [2.5], 'c4': [1., 2., 3., 4.]}):
                    fam.append(('one:n%d:%s:%s:%s' % (
                        n, ''.join(map(str, tags)), out, len(consts)),
                        [('a', n, tags, props_small, out, consts)]))
        # every C type x stride x default at once, more particle counts and
        # tag patterns, every output-list shape, long / empty constants
        for n, tags in ((1, [2]), (2, [0, 1]), (4, [0, 2, 1, 0]),
                        (7, [0, 0, 2, 0, 1, 2, 0])):
            for out in (None, (), tuple(p[0] for p in props_all[::3]),
                        tuple(p[0] for p in props_all[1::2]),
                        tuple(p[0] for p in props_all)):
                for consts in ({}, {'k': [1.0]},
                               {'c0': [], 'c200': [0.25 * i
                                                   for i in range(200)]}):
                    fam.append(('alltypes:n%d:%s:%d:%d' % (
                        n, ''.join(map(str, tags)), len(out or ()) if out
                        is not None else -1, len(consts)),
                        [('a', n, tags, props_all, out, consts)]))
        # three arrays, every assignment of three output lists
        for o1, o2, o3 in itertools.product(outs[:3], repeat=3):
            fam.append(('three:%s:%s:%s' % (o1, o2, o3),
                        [('fluid', 3, [0, 2, 0], props_small, o1,
                          {'cm': [1., 2., 3.]}),
                         ('body', 2, [0, 0], props_small[:4],
                          o2 if o2 is None else tuple(
                              p for p in o2 if p in ('x', 'f3', 'i')), {}),
                         ('wall', 0, [], props_small[:3],
                          o3 if o3 is None else ('x',), {'k': [9.0]})]))
    return fam


def _job(args):
    cases = args
    tmpdir = tempfile.mkdtemp(prefix='c11_', dir=os.environ.get(
        'VERIF_TMP', None))
    out = []
    n = 0
    sigs = set()
    try:
        for (label, spec, fmt, compress, detailed, only_real, version) in cases:
            arrays = [build_array(*s) for s in spec]
            sdata = {'t': 0.125, 'dt': 1e-3, 'count': 17,
                     'integrator': 'EPECIntegrator', 'adaptive': True}
            n += 1
            try:
                loaded = roundtrip(arrays, fmt, compress, detailed, only_real,
                                   sdata, tmpdir, version)
                probs = judge(arrays, loaded, detailed, only_real, sdata,
                              version)
            except Exception as e:  # noqa
                import traceback
                probs = [('exception:%s' % type(e).__name__,
                          traceback.format_exc()[-400:])]
            sigs.add((label, fmt, detailed, only_real))
            for kind, what in probs:
                empty = any(s[1] == 0 for s in spec)
                out.append(('output:%s:%s%s%s' % (
                    fmt if version == 2 else fmt + '-v1', kind,
                    ':empty-array' if empty else '',
                    ':no-arrays' if not spec else ''),
                    '%s [%s fmt=%s compress=%s detailed=%s only_real=%s]' % (
                        what, label, fmt, compress, detailed, only_real),
                    dict(label=label, fmt=fmt, compress=compress,
                         detailed=detailed, only_real=only_real,
                         version=version)))
    finally:
        shutil.rmtree(tmpdir, ignore_errors=True)
    return n, len(sigs), out


def all_cases(thorough):
    fam = array_family(thorough)
    cases = []
    for label, spec in fam:
        for fmt in ('npz', 'hdf5'):
            for compress in (False, True):
                for detailed in (False, True):
                    for only_real in (True, False):
                        cases.append((label, spec, fmt, compress, detailed,
                                      only_real, 2))
        # version 1 predates strided properties: fixtures in the documented
        # v1 layout carry stride-1 properties only
        spec1 = []
        for (nm, n, tags, props, out, consts) in spec:
            p1 = [p for p in props if p[2] == 1]
            names = set(p[0] for p in p1) | {'tag', 'pid', 'gid'}
            o1 = None if out is None else tuple(o for o in out if o in names)
            spec1.append((nm, n, tags, p1, o1 or None, consts))
        for detailed in (False, True):
            for only_real in (True, False):
                cases.append((label, spec1, 'npz', False, detailed,
                              only_real, 1))
    return cases


def run(ctx):
    cases = all_cases(ctx.thorough)
    jobs = [cases[i::ctx.ncpu * 2] for i in range(ctx.ncpu * 2)]
    res = map_jobs(_job, jobs, ctx.ncpu)
    viol = {}
    n = nd = 0
    for r in res:
        if isinstance(r, Crash):
            raise RuntimeError('worker crashed %r' % r)
        a, b, out = r
        n += a
        nd += b
        for key, what, rep in out:
            viol.setdefault(key, (what, rep))
    vs = [Violation(k, w, rep) for k, (w, rep) in sorted(viol.items())]
    cov = dict(evaluations=n, distinct_nontrivial=nd, exhaustive=True,
               samples=[dict(label=cases[(ctx.seed * 37 + 11) % len(cases)][0],
                             fmt='hdf5', detailed=False, only_real=True)],
               rule='array-list family (one array: 0/1/3 particles x 5 tag '
                    'patterns x 4 output-list shapes x constants (none; lengths 1 and 4; lengths 0 and 200); '
                    'all C types x stride {1,3} x default {0,3}; two arrays '
                    'with different property sets and constants; no arrays) '
                    'x {npz,hdf5} x compress x detailed_output x only_real, '
                    'plus version-1 npz files written by dump_v1; distinct = '
                    '(family member, format, detailed, only_real)')
    assumptions = ['an empty output-array list is treated as equivalent to '
                   'the list of all properties (get_property_arrays treats '
                   'them identically)',
                   'values are compared as multisets of per-particle records '
                   'over the stored properties',
                   'version-1 files carry no meta data: only stored values '
                   'of stride-1 properties and solver data are compared']
    return Result('exploration', cov, assumptions, vs)


def replay(ctx, obj):
    want = (obj['label'], obj['fmt'], obj['compress'], obj['detailed'],
            obj['only_real'], obj.get('version', 2))
    cs = [c for c in all_cases(True)
          if (c[0], c[2], c[3], c[4], c[5], c[6]) == want]
    n, nd, out = _job(cs)
    return dict(violates=bool(out), problems=[o[:2] for o in out[:5]])
