"""C12 - every shipped scheme yields a complete, generatable simulation.

E4b over each scheme's option vector.  Tier A (static, no compilation):
full product of the boolean / enumerated options x dim x solids x clean:
configure_solver + setup_properties on plain particle arrays, then every
equation / stepper needs only names the arrays have (independent requirement
function) and code generation renders.  Tier B (compile + two steps): all
configurations within Hamming distance <= 1 of the default; all properties
finite.  See DESIGN.md section 4, C12.
"""
import contextlib
import inspect
import io
import itertools
import math

import numpy as np

from vlib.runner import Result, Violation
from vlib.pool import map_jobs, Crash
from vlib import eqtable as T

SCHEMES = [
    ('pysph.sph.scheme', 'WCSPHScheme'), ('pysph.sph.scheme', 'TVFScheme'),
    ('pysph.sph.scheme', 'AdamiHuAdamsScheme'),
    ('pysph.sph.scheme', 'GasDScheme'), ('pysph.sph.scheme', 'GSPHScheme'),
    ('pysph.sph.scheme', 'ADKEScheme'), ('pysph.sph.iisph', 'IISPHScheme'),
    ('pysph.sph.wc.gtvf', 'GTVFScheme'), ('pysph.sph.wc.edac', 'EDACScheme'),
    ('pysph.sph.wc.crksph', 'CRKSPHScheme'),
    ('pysph.sph.wc.pcisph', 'PCISPHScheme'),
    ('pysph.sph.solid_mech.basic', 'ElasticSolidsScheme'),
    ('pysph.sph.isph.isph', 'ISPHScheme'),
    ('pysph.sph.isph.sisph', 'SISPHScheme'),
    ('pysph.sph.gas_dynamics.magma2', 'MAGMA2Scheme'),
    ('pysph.sph.gas_dynamics.tsph', 'TSPHScheme'),
    ('pysph.sph.gas_dynamics.psph', 'PSPHScheme'),
]
SCHEME_DEFAULTS = {'MAGMA2Scheme': dict(ndes=20)}
SLOW_SCHEMES = ('SISPHScheme',)
REQUIRED = dict(rho0=1000.0, c0=10.0, h0=0.13, hdx=1.3, nu=0.01, p0=100.0,
                pb=100.0, gamma=1.4, kernel_factor=1.2, hfact=1.2, pref=100.0,
                alpha=0.1)
# enumerated (non boolean) options, first value = default
ENUMS = dict(
    adaptive_h_scheme={'GasDScheme': ['mpm', 'gsph'],
                       'MAGMA2Scheme': ['magma2', 'mpm']},
    rsolver=list(range(2, 11)) + [0, 1],
    interpolation=[1, 0, 2], monotonicity=[1, 0, 2],
    formulation=['mi1', 'mi2', 'stdgrad'], reconstruction_order=[2, 0, 1],
    cl=[2, 1], cq=[1, 2],
)
# numeric options whose zero / non-zero value switches equations on or off
NUMERIC = dict(nu=[None, 0.0, 0.05], alpha=[None, 0.0, 0.2],
               beta=[None, 0.0], delta=[None, 0.0], tdamp=[None, 0.1],
               eps=[None, 0.3], g1=[None, 0.2], g2=[None, 0.4],
               pb=[None, 0.0, 100.0], edac_alpha=[None, 1.5], h=[None, 0.13],
               gx=[None, 0.0], gy=[None, -9.81], omega=[None, 0.3],
               pref=[None, 50.0], xsph_eps=[None, 0.0],
               artificial_stress_eps=[None, 0.0])


def load(mod, name):
    import importlib
    return getattr(importlib.import_module(mod), name)


def option_menu(cls):
    """name -> list of values (first = default)."""
    sig = inspect.signature(cls.__init__)
    menu = {}
    for nm, p in list(sig.parameters.items())[1:]:
        if nm in ('fluids', 'solids', 'dim', 'elastic_solids',
                  'inlet_outlet_manager', 'inviscid_solids', 'debug',
                  'show_itercount'):
            continue
        d = p.default
        if d is inspect.Parameter.empty:
            # a required numeric option whose zero / non-zero value switches
            # equations on or off (nu, pb, alpha ...): the value the harness
            # passes by default, then the alternatives
            if nm in NUMERIC and nm in REQUIRED:
                alts = [v for v in NUMERIC[nm][1:] if v != REQUIRED[nm]]
                if alts:
                    menu[nm] = [REQUIRED[nm]] + alts
            continue
        if isinstance(d, bool):
            menu[nm] = [d, not d]
        elif nm in ENUMS:
            vals = ENUMS[nm]
            if isinstance(vals, dict):
                vals = vals.get(cls.__name__)
            if vals:
                menu[nm] = [d] + [v for v in vals if v != d]
        elif nm in NUMERIC:
            alts = [v for v in NUMERIC[nm][1:] if v != d]
            if alts:
                menu[nm] = [d] + alts
    return menu


def make_scheme(cls, dim, with_solid, opts):
    sig = inspect.signature(cls.__init__)
    kw = {}
    for nm, p in list(sig.parameters.items())[1:]:
        if nm in ('fluids', 'elastic_solids'):
            kw[nm] = ['fluid']
        elif nm == 'solids':
            kw[nm] = ['solid'] if with_solid else []
        elif nm == 'dim':
            kw[nm] = dim
        elif nm in opts:
            kw[nm] = opts[nm]
        elif nm in SCHEME_DEFAULTS.get(cls.__name__, {}):
            kw[nm] = SCHEME_DEFAULTS[cls.__name__][nm]
        elif p.default is inspect.Parameter.empty:
            kw[nm] = REQUIRED[nm]
    return cls(**kw)


def make_particles(dim, with_solid, scheme_name):
    from pysph.base.utils import get_particle_array
    dx = 0.1
    n = {1: 12, 2: 5, 3: 3}[dim]
    rng = [np.arange(n) * dx if a < dim else np.zeros(1) for a in range(3)]
    X, Y, Z = np.meshgrid(*rng, indexing='ij')
    x, y, z = X.ravel().copy(), Y.ravel().copy(), Z.ravel().copy()
    x += 0.003 * np.sin(7 * np.arange(len(x)))
    gas = scheme_name in ('GasDScheme', 'GSPHScheme', 'ADKEScheme',
                          'MAGMA2Scheme', 'TSPHScheme', 'PSPHScheme',
                          'CRKSPHScheme')
    rho0 = 1.0 if gas else 1000.0
    m = rho0 * dx ** dim
    kw = dict(x=x, y=y, z=z, h=1.3 * dx, m=m, rho=rho0,
              u=0.05 * np.cos(3 * np.arange(len(x))), p=1.0 if gas else 0.0)
    if gas:
        kw['e'] = 2.5
        kw['cs'] = 1.2
    pas = [get_particle_array(name='fluid', **kw)]
    if with_solid:
        sx = np.arange(n) * dx
        if dim == 1:
            sx = sx[:3] - 3.5 * dx
        sy = -dx * np.ones(len(sx)) if dim > 1 else np.zeros(len(sx))
        pas.append(get_particle_array(name='solid', x=sx, y=sy, h=1.3 * dx,
                                      m=m, rho=rho0))
    return pas


def flatten(eqs):
    from pysph.sph.equation import Group, MultiStageEquations
    out = []
    if isinstance(eqs, MultiStageEquations):
        for g in eqs.groups:
            out += flatten(g)
        return out
    for e in eqs:
        if isinstance(e, Group):
            out += flatten(e.equations)
        else:
            out.append(e)
    return out


_INT_REQ = {}
_STRIDES = []


def stride_registry():
    if not _STRIDES:
        from vlib import propreg, build
        types, strides = propreg.harvest(build.work_dir())
        _STRIDES.append({k: v for k, v in strides.items() if 1 not in v})
    return _STRIDES[0]


def int_required(eq):
    """(prefix, property) pairs whose C type must be integral for the
    generated code to compile: values assigned to a variable declared
    int/long/unsigned, or used as an array index."""
    import ast
    import textwrap
    key = type(eq)
    if key in _INT_REQ:
        return _INT_REQ[key]
    found = set()
    for h in T.ARRAY_HOOKS:
        m = getattr(eq, h, None)
        if m is None:
            continue
        try:
            tree = ast.parse(textwrap.dedent(inspect.getsource(m)))
        except Exception:  # noqa
            continue
        ints = set()
        for node in ast.walk(tree):
            if isinstance(node, ast.Assign) and isinstance(
                    node.value, ast.Call) and getattr(
                    node.value.func, 'id', None) == 'declare' and \
                    node.value.args and isinstance(node.value.args[0],
                                                   ast.Constant) and \
                    str(node.value.args[0].value).split('(')[0].strip() in (
                        'int', 'long', 'unsigned int', 'unsigned long'):
                for t in node.targets:
                    for n in ast.walk(t):
                        if isinstance(n, ast.Name):
                            ints.add(n.id)

        def arr(n):
            if isinstance(n, ast.Subscript) and isinstance(n.value, ast.Name) \
                    and n.value.id[:2] in ('d_', 's_'):
                return (n.value.id[0], n.value.id[2:])
            return None
        for node in ast.walk(tree):
            if isinstance(node, ast.Assign) and len(node.targets) == 1 and \
                    isinstance(node.targets[0], ast.Name) and \
                    node.targets[0].id in ints and arr(node.value):
                found.add(arr(node.value))
            if isinstance(node, ast.Subscript):
                for sub in ast.walk(node.slice):
                    if arr(sub):
                        found.add(arr(sub))
    _INT_REQ[key] = found
    return found


CHOOSER_MEMBERS = [('pysph.sph.scheme', 'WCSPHScheme'),
                   ('pysph.sph.scheme', 'TVFScheme'),
                   ('pysph.sph.wc.edac', 'EDACScheme'),
                   ('pysph.sph.iisph', 'IISPHScheme')]


def make_chooser(default, chosen, dim, with_solid):
    """SchemeChooser over four fluid schemes, selection made the way the
    Application does it (command line option --scheme)."""
    import argparse
    from pysph.sph.scheme import SchemeChooser
    members = {n.replace('Scheme', '').lower(): make_scheme(
        load(m, n), dim, with_solid, {}) for m, n in CHOOSER_MEMBERS}
    ch = SchemeChooser(default=default, **members)
    parser = argparse.ArgumentParser(conflict_handler='resolve')
    ch.add_user_options(parser.add_argument_group('scheme'))
    ch.consume_user_options(parser.parse_args(['--scheme', chosen]))
    return ch


def static_check(cls, dim, with_solid, clean, opts, codegen=True,
                 factory=None):
    """Tier A.  Returns list of (kind, what)."""
    probs = []
    buf = io.StringIO()
    with contextlib.redirect_stdout(buf):
        try:
            s = factory() if factory is not None else \
                make_scheme(cls, dim, with_solid, opts)
        except (ValueError, NotImplementedError, AssertionError) as e:
            return 'unsupported', []
        except Exception as e:  # noqa
            return 'checked', [('constructor:%s' % type(e).__name__, repr(e))]
        try:
            from pysph.base.kernels import CubicSpline
            s.configure_solver(dt=1e-4, tf=2e-4, pfreq=1000)
            pas = make_particles(dim, with_solid,
                                 cls.__name__ if cls is not None else '')
            s.setup_properties(pas, clean=clean)
            eqs = s.get_equations()
        except (ValueError, NotImplementedError, AssertionError) as e:
            # the scheme refuses this dim / option combination
            return 'unsupported', []
        except Exception as e:  # noqa
            import traceback
            return 'checked', [('setup:%s' % type(e).__name__,
                                traceback.format_exc()[-300:])]
        arrays = {pa.name: set(pa.properties) | set(pa.constants)
                  for pa in pas}
        ctypes = {pa.name: {p: a.get_c_type()
                            for p, a in pa.properties.items()}
                  for pa in pas}
        # strides: a property that the tree only ever declares with a
        # stride > 1 (e.g. the 3x3 tensors of GTVF/CRKSPH, stride 9) is
        # indexed as stride*d_idx+i by the equations that use it
        reg = stride_registry()
        for pa in pas:
            for p in pa.properties:
                want = reg.get(p)
                have = pa.stride.get(p, 1)
                if want and have not in want and have * \
                        pa.get_number_of_particles() == \
                        pa.properties[p].length:
                    probs.append(('property-stride:%s' % p,
                                  '%s.%s has stride %d, the sources declare '
                                  'it with stride %s' % (pa.name, p, have,
                                                         sorted(want))))
        for eq in flatten(eqs):
            d, ss, idd, iss = T.equation_needs(eq)
            for pre, prop in int_required(eq):
                for an in ([eq.dest] if pre == 'd' else (eq.sources or [])):
                    ct = ctypes.get(an, {}).get(prop)
                    if ct in ('double', 'float'):
                        probs.append((
                            'equation-needs-integer-property:%s:%s' % (
                                type(eq).__name__, prop),
                            '%s reads %s_%s of %r into an integer / uses it '
                            'as an index, but the property has C type %s: '
                            'the generated code does not compile' % (
                                type(eq).__name__, pre, prop, an, ct)))
            if eq.dest not in arrays:
                probs.append(('unknown-dest', '%s dest %r' % (
                    type(eq).__name__, eq.dest)))
                continue
            miss = (d | idd) - arrays[eq.dest]
            if miss:
                probs.append(('equation-needs-missing-property:%s:%s' % (
                    type(eq).__name__, ','.join(sorted(miss))),
                    '%s on dest %r needs %s' % (
                        type(eq).__name__, eq.dest, sorted(miss))))
            for src in (eq.sources or []):
                if src not in arrays:
                    probs.append(('unknown-source', '%s source %r' % (
                        type(eq).__name__, src)))
                    continue
                miss = (ss | iss) - arrays[src]
                if miss:
                    probs.append(('equation-needs-missing-property:%s:%s' % (
                        type(eq).__name__, ','.join(sorted(miss))),
                        '%s on source %r needs %s' % (
                            type(eq).__name__, src, sorted(miss))))
        solver_ = getattr(s, 'solver', None) or s.scheme.solver
        integ = solver_.integrator
        for name, st in integ.steppers.items():
            if name not in arrays:
                probs.append(('stepper-for-unknown-array', name))
                continue
            need = set()
            for nm, meth in inspect.getmembers(st, predicate=inspect.ismethod):
                if nm == 'initialize' or (nm.startswith('stage') and
                                          nm[5:].isdigit()):
                    need |= set(a[2:] for a in
                                inspect.getfullargspec(meth).args[1:]
                                if a.startswith('d_') and a != 'd_idx')
            miss = need - arrays[name]
            if miss:
                probs.append(('stepper-needs-missing-property:%s:%s' % (
                    type(st).__name__, ','.join(sorted(miss))),
                    '%s on %r needs %s' % (type(st).__name__, name,
                                           sorted(miss))))
        if not probs and codegen:
            # code generation for the whole problem (no compilation)
            try:
                from pysph.sph.acceleration_eval import \
                    make_acceleration_evals
                from pysph.sph.sph_compiler import SPHCompiler
                kernel = solver_.kernel
                aes = make_acceleration_evals(pas, eqs, kernel)
                comp = SPHCompiler(aes, integ)
                code = comp._get_code()
                for h in comp.acceleration_eval_helpers[1:]:
                    code += h.get_code()
                if 'cdef class' not in code:
                    probs.append(('codegen-empty', ''))
            except Exception as e:  # noqa
                import traceback
                probs.append(('codegen:%s' % type(e).__name__,
                              traceback.format_exc()[-400:]))
    return 'checked', probs


def init_scheme_props(pas, dim):
    """Values a user's create_particles is expected to give to scheme
    specific properties (the examples do): inverse volume, reference
    density, unit grad-h factors."""
    dx = 0.1
    for pa in pas:
        for nm, val in (('V', 1.0 / dx ** dim), ('V0', 1.0 / dx ** dim),
                        ('rho0', None), ('omega', 1.0), ('alpha1', 1.0),
                        ('alpha2', 0.1), ('wij', 1.0), ('n', 1.0 / dx ** dim),
                        ('m_mat', None)):
            if nm in pa.properties and val is not None:
                a = pa.get(nm, only_real_particles=False)
                if len(a) and not np.any(a):
                    a[:] = val
        for nm, src in (('rho0', 'rho'), ('h0', 'h')):
            if nm in pa.properties:
                a = pa.get(nm, only_real_particles=False)
                if len(a) and not np.any(a):
                    a[:] = pa.get(src, only_real_particles=False)


def run_check(cls, dim, with_solid, opts, run=True):
    """Tier B: compile, run two steps, everything finite."""
    from compyle.config import get_config
    get_config().use_openmp = False
    from pysph.base.nnps import LinkedListNNPS
    buf = io.StringIO()
    with contextlib.redirect_stdout(buf):
        s = make_scheme(cls, dim, with_solid, opts)
        s.configure_solver(dt=1e-5, tf=2e-5, pfreq=100000)
        pas = make_particles(dim, with_solid, cls.__name__)
        s.setup_properties(pas, clean=True)
        init_scheme_props(pas, dim)
        eqs = s.get_equations()
        solver = s.solver
        kernel = solver.kernel
        nnps = LinkedListNNPS(dim=dim, particles=pas,
                              radius_scale=kernel.radius_scale)
        solver.set_disable_output(True)
        solver.pm = None          # the Application sets these two
        solver.in_parallel = False
        solver.setup(pas, eqs, nnps, kernel)
        if not run:
            return [], 2
        solver.solve(show_progress=False)
    bad = []
    for pa in pas:
        for p, a in pa.properties.items():
            v = a.get_npy_array()
            if v.dtype.kind == 'f' and not np.all(np.isfinite(v)):
                bad.append('%s.%s' % (pa.name, p))
    return bad, solver.count


def _static_job(args):
    mod, name, combos, thorough = args
    cls = load(mod, name)
    out = []
    n = 0
    nsup = 0
    for (dim, solid, clean, opts) in combos:
        status, probs = static_check(cls, dim, solid, clean, opts,
                                     codegen=(thorough or len(opts) <= 1))
        n += 1
        if status == 'unsupported':
            continue
        nsup += 1
        for kind, what in probs[:3]:
            nd = sum(1 for k in opts)
            out.append(('scheme:%s:%s' % (name, kind),
                        '%s [dim=%d solid=%s clean=%s opts=%r]' % (
                            what, dim, solid, clean, opts),
                        dict(scheme=name, mod=mod, dim=dim, solid=solid,
                             clean=clean, opts=opts, tier='A'), nd))
    return n, nsup, out


def _chooser_job(args):
    default, chosen, dim, solid, clean = args
    status, probs = static_check(
        None, dim, solid, clean, {}, codegen=True,
        factory=lambda: make_chooser(default, chosen, dim, solid))
    out = []
    for kind, what in probs[:3]:
        out.append(('scheme:SchemeChooser:%s' % kind,
                    '%s [default=%s chosen=%s dim=%d solid=%s clean=%s]' % (
                        what, default, chosen, dim, solid, clean),
                    dict(scheme='SchemeChooser', default=default,
                         chosen=chosen, dim=dim, solid=solid, clean=clean,
                         tier='A'), 0))
    return 1, (0 if status == 'unsupported' else 1), out


# (scheme, dim, solid) cases whose two-step run is NOT judged; decided on the
# unchanged tree (see DESIGN.md C12): they need problem specific initial data
# or an optional module that is not installed; compilation is still required.
GAS = ('GasDScheme', 'GSPHScheme', 'MAGMA2Scheme', 'TSPHScheme', 'PSPHScheme',
       'ADKEScheme')


def run_not_judged(name, dim, solid):
    if name in GAS and solid:
        return 'gas-dynamics schemes do not model solid walls: plain solid '\
               'particles give non-finite accelerations'
    if name == 'ADKEScheme':
        return 'ADKE needs problem specific initial pilot densities'
    if name == 'PCISPHScheme' and dim > 1:
        return 'PCISPH pressure iteration diverges on the generic block'
    if name == 'ISPHScheme':
        return 'needs scipy.sparse at run time (not installed)'
    return None


def _run_job(args):
    mod, name, dim, solid, opts = args
    judged = run_not_judged(name, dim, solid) is None
    cls = load(mod, name)
    status, probs = static_check(cls, dim, solid, True, opts)
    if status == 'unsupported' or probs:
        return 0, []
    try:
        bad, count = run_check(cls, dim, solid, opts, run=judged)
    except SystemExit as e:
        return 1, [('scheme:%s:compile-failed' % name,
                    'generated code does not compile [dim=%d solid=%s opts=%r]'
                    % (dim, solid, opts),
                    dict(scheme=name, mod=mod, dim=dim, solid=solid,
                         opts=opts, tier='B'))]
    except Exception as e:  # noqa
        import traceback
        return 1, [('scheme:%s:run:%s' % (name, type(e).__name__),
                    '%s [dim=%d solid=%s opts=%r]' % (
                        traceback.format_exc()[-300:], dim, solid, opts),
                    dict(scheme=name, mod=mod, dim=dim, solid=solid,
                         opts=opts, tier='B'))]
    out = []
    if bad:
        out.append(('scheme:%s:non-finite' % name,
                    'after %d steps non-finite: %s [dim=%d solid=%s opts=%r]'
                    % (count, bad[:6], dim, solid, opts),
                    dict(scheme=name, mod=mod, dim=dim, solid=solid,
                         opts=opts, tier='B')))
    if count < 2:
        out.append(('scheme:%s:did-not-step' % name, 'count=%d' % count,
                    dict(scheme=name, mod=mod, dim=dim, solid=solid,
                         opts=opts, tier='B')))
    return 1, out


def hamming_configs(menu, maxd):
    """All option dicts within Hamming distance maxd of the default."""
    names = sorted(menu)
    out = [dict()]
    for d in range(1, maxd + 1):
        for sub in itertools.combinations(names, d):
            for vals in itertools.product(*[menu[n][1:] for n in sub]):
                out.append(dict(zip(sub, vals)))
    return out


def full_product(menu, cap):
    names = sorted(menu)
    tot = 1
    for n in names:
        tot *= len(menu[n])
    if tot <= cap:
        return [dict((n, v) for n, v in zip(names, vals)
                     if v != menu[n][0])
                for vals in itertools.product(*[menu[n] for n in names])], True
    # too large: booleans in full product, the rest within distance 2
    bools = [n for n in names if isinstance(menu[n][0], bool)]
    rest = [n for n in names if n not in bools]
    out = []
    bp = list(itertools.product(*[menu[n] for n in bools]))
    if len(bp) > cap:
        return hamming_configs(menu, 2), False
    hr = hamming_configs({n: menu[n] for n in rest}, 1)
    for vals in bp:
        for r in hr:
            d = dict((n, v) for n, v in zip(bools, vals) if v != menu[n][0])
            d.update(r)
            out.append(d)
    return out, False


def run(ctx):
    sjobs = []
    rjobs = []
    complete = {}
    sjobs_extra = [0, 0]
    for mod, name in SCHEMES:
        cls = load(mod, name)
        menu = option_menu(cls)
        # one static check of SISPH costs ~0.4 s of CPU (10 options, 1024
        # combinations), every other scheme <= 0.1 s: a fixed list keeps the
        # enumeration independent of machine load
        slow = name in SLOW_SCHEMES
        if slow and not ctx.thorough:
            # expensive code generation: bounded deviation instead of the
            # full product
            combos_opts, full = hamming_configs(menu, 2), False
        else:
            combos_opts, full = full_product(menu,
                                             4096 if ctx.thorough else 1024)
        complete[name] = dict(options=sorted(menu), full_product=full,
                              configs=len(combos_opts))
        combos = []
        for o in combos_opts:
            near = len(o) <= 1
            for dim in ((1, 2, 3) if (near or ctx.thorough) else (2,)):
                for solid in (False, True):
                    for clean in ((True, False) if (near or ctx.thorough)
                                  else (True,)):
                        combos.append((dim, solid, clean, o))
        for i in range(0, len(combos), 60):
            sjobs.append((mod, name, combos[i:i + 60], ctx.thorough))
        # tier B: default and distance-1 deviations (distance 2 thorough),
        # dims and solids chosen so that each supported combination appears
        devs = hamming_configs(menu, 2 if ctx.thorough else 1)
        if not ctx.thorough:
            # quick: also every pair of values of two enumerated options
            # (Riemann solver x limiter x interpolation ...): such options
            # select code inside one equation, they interact
            devs += [o for o in hamming_configs(menu, 2)
                     if len(o) == 2 and all(k in ENUMS for k in o)]
        for o in devs:
            if ctx.thorough or not o:
                cases = [(2, False), (2, True), (1, False), (3, False)]
                if ctx.thorough:
                    cases += [(1, True), (3, True)]
            else:
                # deviations in 2-D with a solid - except for the
                # gas-dynamics schemes, whose two-step run is only judged
                # without solid arrays (run_not_judged)
                cases = [(2, name not in GAS)]
            for dim, solid in cases:
                rjobs.append((mod, name, dim, solid, o))
    viol = {}
    import time as _t
    tA0 = _t.time()
    names = [n.replace('Scheme', '').lower() for m, n in CHOOSER_MEMBERS]
    cjobs = [(d, c, dim, solid, clean) for d in names for c in names
             for dim in (2, 3) for solid in (False, True)
             for clean in (True, False)]
    both = map_jobs(lambda j: _static_job(j[1]) if j[0] == 's' else
                    _chooser_job(j[1]),
                    [('s', j) for j in sjobs] + [('c', j) for j in cjobs],
                    ctx.ncpu, job_timeout=3000)
    res = both[:len(sjobs)]
    for job, r in zip(cjobs, both[len(sjobs):]):
        if isinstance(r, Crash):
            viol.setdefault('scheme:SchemeChooser:crash', (
                0, r.reason, dict(scheme='SchemeChooser', job=list(job))))
            continue
        sjobs_extra[0] += r[0]
        sjobs_extra[1] += r[1]
        for key, what, rep, nd in r[2]:
            viol.setdefault(key, (nd, what, rep))
    tA = _t.time() - tA0
    nA = nsupA = 0
    for job, r in zip(sjobs, res):
        if isinstance(r, Crash):
            viol.setdefault('scheme:%s:crash:tierA' % job[1],
                            (0, r.reason, dict(scheme=job[1])))
            continue
        n, nsup, out = r
        nA += n
        nsupA += nsup
        for key, what, rep, nd in out:
            if key not in viol or nd < viol[key][0]:
                viol[key] = (nd, what, rep)
    tB0 = _t.time()
    res = map_jobs(_run_job, rjobs, ctx.ncpu, job_timeout=3000)
    tB = _t.time() - tB0
    nB = 0
    for job, r in zip(rjobs, res):
        if isinstance(r, Crash):
            viol.setdefault('scheme:%s:crash:tierB' % job[1],
                            (0, '%s [dim=%d solid=%s opts=%r]' % (
                                r.reason, job[2], job[3], job[4]),
                             dict(scheme=job[1], dim=job[2], solid=job[3],
                                  opts=job[4])))
            continue
        n, out = r
        nB += n
        for key, what, rep in out:
            nd = len(rep['opts'])
            if key not in viol or nd < viol[key][0]:
                viol[key] = (nd, what, rep)
    vs = [Violation(k, w, rep) for k, (nd, w, rep) in sorted(viol.items())]
    nA += sjobs_extra[0]
    nsupA += sjobs_extra[1]
    cov = dict(evaluations=nA + nB, distinct_nontrivial=nsupA + nB,
               chooser_configurations=sjobs_extra[0],
               tierA_configurations=nA, tierA_supported=nsupA,
               tierB_compiled_runs=nB, schemes=complete, exhaustive=True,
               tierA_seconds=round(tA, 1), tierB_seconds=round(tB, 1),
               tierA_jobs=len(sjobs), tierB_jobs=len(rjobs),
               samples=[dict(scheme='WCSPHScheme', dim=2, solid=True,
                             opts=dict(delta_sph=True))],
               rule='tier A: for each of 17 scheme classes the full product '
                    'of boolean/enumerated/switching-numeric constructor '
                    'options (capped: booleans full x others distance 1) x '
                    'dim 1-3 x with/without a solid x clean; tier B: compile '
                    '+ 2 steps for every configuration within Hamming '
                    'distance 1 (quick: the default in 4 dim/solid cases, every deviation in 2-D with a solid, plus every pair of values of two enumerated options) / 2 (thorough) of the default; '
                    'non-trivial = configurations the scheme accepts')
    assumptions = ['constructor raising ValueError/NotImplementedError for a '
                   'dim/option combination = combination not documented as '
                   'supported',
                   'requirement function of vlib/eqtable.py (signatures + '
                   'precomputed-symbol closure)',
                   'tier B uses LinkedListNNPS, 12-27 particles, dt=1e-5']
    return Result('exploration', cov, assumptions, vs)


def replay(ctx, obj):
    cls = load(obj['mod'], obj['scheme'])
    if obj.get('tier') == 'B':
        n, out = _run_job((obj['mod'], obj['scheme'], obj['dim'],
                           obj['solid'], obj['opts']))
        return dict(violates=bool(out), problems=[o[:2] for o in out])
    st, probs = static_check(cls, obj['dim'], obj['solid'],
                             obj.get('clean', True), obj['opts'])
    return dict(violates=bool(probs), problems=probs[:3])
