"""C01 - every NNPS algorithm returns exactly the true neighbour set.

E4a: all placements of <=k particles on a half-cell lattice (points on cell
faces, pairs exactly at the cut-off, coincident points, collinear / coplanar
sets, empty and single-particle arrays) x smoothing-length patterns x array
splits x affine images, for every CPU algorithm and its knobs.
E2: update histories (move / set h / append / remove, then update) on one
long-lived NNPS object.  Oracle: NumPy brute force.  See DESIGN.md C01.
"""
import itertools
import time

import numpy as np

from vlib.runner import Result, Violation
from vlib.pool import map_jobs, Crash
from vlib import nnps_util as U

H0 = U.H0


def image(cfg, name):
    dim = cfg['dim']
    pts = cfg['pts']
    h = cfg['h']
    if name == 'identity':
        return cfg
    c = dict(cfg)
    if name == 'far':
        c['pts'] = [tuple(p[a] + (1.0e6 if a < dim else 0.0)
                          for a in range(3)) for p in pts]
    elif name == 'negative':
        c['pts'] = [tuple(p[a] - (3.25 if a < dim else 0.0)
                          for a in range(3)) for p in pts]
    elif name == 'small':
        c['pts'] = [tuple(p[a] * 2.0 ** -10 for a in range(3)) for p in pts]
        c['h'] = [x * 2.0 ** -10 for x in h]
    elif name == 'large':
        c['pts'] = [tuple(p[a] * 1024.0 for a in range(3)) for p in pts]
        c['h'] = [x * 1024.0 for x in h]
    c['image'] = name
    return c


IMG = ['far', 'negative', 'small', 'large']


def h_patterns(k, hvals, full):
    if full:
        return list(itertools.product(hvals, repeat=k))
    pats = {tuple([hvals[0]] * k)}
    for big in hvals[1:]:
        for i in range(k):
            p = [hvals[0]] * k
            p[i] = big
            pats.add(tuple(p))
        pats.add(tuple([big] * k))
    return sorted(pats)


def arr_patterns(k):
    if k == 0:
        return [()]
    pats = {tuple([0] * k)}
    pats.add(tuple([0] + [1] * (k - 1)))
    pats.add(tuple(i % 2 for i in range(k)))
    pats.add(tuple([1] * k))      # array 0 is empty
    return sorted(pats)


def static_configs(thorough, seed):
    hv = [H0, 3 * H0] + ([H0 / 8, 50 * H0] if thorough else [])
    plan = [
        # dim, n per axis, kmax, full h patterns up to k
        (1, 9, 4, 3),
        (2, 4, 3, 2),
        (2, 3, 4, 2),
        (3, 3, 3, 2),
    ]
    for dim, n, kmax, hfull in plan:
        lat = U.lattice(dim, n)
        for k in range(0, kmax + 1):
            big = (k == kmax and k >= 3)
            mss = list(U.multisets(len(lat), k))
            if big and not thorough:
                # quick tier: one residue class (mod 6) of the largest-k
                # placements, rotating with the seed; thorough takes all
                mss = mss[seed % 6::6]
            for ms in mss:
                pts = [lat[i] for i in ms]
                # for k <= 2 also a smoothing length that makes the cell
                # smaller than the unit box a lone particle is given
                hps = h_patterns(k, hv + ([H0 / 2] if k <= 2 else []),
                                 k <= hfull or thorough)
                aps = arr_patterns(k)
                if big and not thorough:
                    # quick tier: on the largest k keep the uniform and two
                    # one-large h patterns and two array splits; which ones
                    # rotates with the seed
                    hps = [hps[0], hps[1 + seed % (len(hps) - 1)],
                           hps[1 + (seed + 1) % (len(hps) - 1)]]
                    aps = [aps[0], aps[1 + seed % (len(aps) - 1)]]
                for hp in hps:
                    for ap in aps:
                        yield dict(dim=dim, pts=pts, h=list(hp),
                                   arr=list(ap), narr=2)


def sig_of(cfg):
    """Degeneracy class of a configuration: keys violations narrowly and
    lets a crashing (variant, class) be skipped without losing the variant
    on other classes."""
    dim = cfg['dim']
    pts = cfg['pts']
    narr = cfg.get('narr', 2)
    if not pts:
        return 'all-empty'
    if len(set(cfg['arr'])) < narr:
        return 'empty-array'
    mult = max(pts.count(p) for p in pts)
    if mult >= 2:
        return 'coincident'
    if dim > 1 and len(pts) >= 1:
        for a in range(dim):
            v = [p[a] for p in pts]
            if max(v) == min(v):
                return 'zero-extent'
    return 'general'


import os as _os
CRUMB_DIR = _os.path.join(_os.environ.get('VERIF_CACHE', '/var/tmp/pysph-verif'),
                          'crumbs-' + _os.environ.get('VERIF_RUN_ID', 'x'))
_crumb_fd = [None, None]


def crumb(obj):
    import os
    import json
    pid = os.getpid()
    if _crumb_fd[1] != pid:
        os.makedirs(CRUMB_DIR, exist_ok=True)
        _crumb_fd[0] = os.open(os.path.join(CRUMB_DIR, str(pid)),
                               os.O_WRONLY | os.O_CREAT | os.O_TRUNC)
        _crumb_fd[1] = pid
    data = json.dumps(obj).encode()
    os.pwrite(_crumb_fd[0], data + b' ' * max(0, 4096 - len(data)), 0)


def read_crumb(pid):
    import os
    import json
    try:
        with open(os.path.join(CRUMB_DIR, str(pid))) as f:
            return json.loads(f.read().strip())
    except Exception:
        return None


def _check_cfg(cfg, table, skip=(), tag=None):
    """Run all algorithm variants on one configuration.
    Returns (n_evals, problems)."""
    probs = []
    ne = 0
    pas = U.make_arrays(cfg)
    klass = sig_of(cfg)
    ref = U.brute_all(pas)
    for name, variants in table.items():
        for kw in variants:
            ident = [tag, name, [list(x) for x in sorted(kw.items())]]
            if [name, klass] in skip:
                continue
            crumb(dict(ident=ident, cfg=cfg))
            try:
                nn = U.make_nnps(name, cfg['dim'], pas, kw)
                got = U.query_all(nn, pas)
                pr = U.check_lists(pas, got, kw.get('sort_gids', False), ref)
                if kw.get('cache'):
                    got2 = U.query_all(nn, pas, use_find_all=True)
                    pr += U.check_lists(pas, got2,
                                        kw.get('sort_gids', False), ref)
            except Exception as e:  # noqa
                pr = [('exception:%s' % type(e).__name__, repr(e))]
            ne += 1
            for kind, det in pr[:1]:
                probs.append((name, kind, kw, det))
    return ne, probs


TABLE = [None]


def _static_job(args):
    cfgs, images, thorough, only, skip = args
    table = {k: v for k, v in U.algos(thorough).items() if k == only}
    out = []
    ne = 0
    nontriv = set()
    for ci, cfg in enumerate(cfgs):
        # quick: every fourth configuration is also run through one affine
        # image, the images taking turns (all four are used in every run)
        ims = ['identity'] + (images if thorough else (
            [images[(ci // 4) % len(images)]] if ci % 4 == 0 else []))
        for im in ims:
            c = image(cfg, im)
            n, probs = _check_cfg(c, table, skip, [ci, im])
            ne += n
            for name, kind, kw, det in probs:
                out.append((name, kind, kw, det, c))
        # non-trivial: some pair is a neighbour and some is not
        pas = U.make_arrays(cfg)
        must, may = [], []
        tot = 0
        nb = 0
        for di in range(2):
            for si in range(2):
                m, _ = U.brute(pas, U.RS, si, di)
                ns = pas[si].get_number_of_particles()
                tot += ns * len(m)
                nb += sum(len(x) for x in m)
        if 0 < nb < tot or (nb > 0 and tot > 0):
            nontriv.add(hash((tuple(cfg['pts']), tuple(cfg['h']),
                              tuple(cfg['arr']))))
    return ne, len(cfgs), nontriv, out


# ---------------------------------------------------------------------------
# update histories on one long-lived NNPS object
# ---------------------------------------------------------------------------
def history_ops(dim, lat, k, narr, thorough=False):
    """Operation alphabet of the update histories.  Move / append targets:
    a spread of lattice points (first, middle, last and two in between;
    all points in 1-D and in the thorough tier)."""
    if thorough or len(lat) <= 5:
        tgt = list(range(len(lat)))
    else:
        n = len(lat)
        tgt = sorted(set([0, n // 4, n // 2, (3 * n) // 4, n - 1]))
    ops = []
    for i in range(k):
        for p in tgt:
            ops.append(('move', i, p))
        for hv in (H0, 3 * H0):
            ops.append(('seth', i, hv))
        ops.append(('remove', i))
    for a in range(narr):
        for p in tgt[::2]:
            for hv in (H0, 3 * H0):
                ops.append(('append', a, p, hv))
    return ops


def apply_op(pas, loc, op, lat):
    """loc: list of (array, local index) per logical particle (None when
    removed).  Mutates arrays.  Returns False if op not applicable."""
    kind = op[0]
    if kind in ('move', 'seth', 'remove'):
        i = op[1]
        if i >= len(loc) or loc[i] is None:
            return False
        a, j = loc[i]
        pa = pas[a]
        if kind == 'move':
            p = lat[op[2]]
            pa.x[j], pa.y[j], pa.z[j] = p
        elif kind == 'seth':
            pa.h[j] = op[2]
        else:
            n = pa.get_number_of_particles()
            pa.remove_particles([j])
            # remove swaps the last particle into slot j
            for q, l in enumerate(loc):
                if l is not None and l[0] == a and l[1] == n - 1:
                    loc[q] = (a, j)
            loc[i] = None
    else:
        a, p, hv = op[1], op[2], op[3]
        pt = lat[p]
        pa = pas[a]
        n = pa.get_number_of_particles()
        pa.add_particles(x=[pt[0]], y=[pt[1]], z=[pt[2]], h=[hv],
                         gid=[1000 + n])
        loc.append((a, n))
    return True


def hist_class(base, seq):
    """Degeneracy class reachable by a history (for skipping crashers)."""
    ops = set(o[0] for o in seq)
    if 'remove' in ops:
        return 'history:with-remove'
    return 'history:' + sig_of(base)


def _history_job(args):
    bases, depth, thorough, only, skip = args
    table = {k: v for k, v in U.algos(False).items() if k == only}
    # default + cached variant of every algorithm
    variants = []
    for name, vs in table.items():
        variants.append((name, {}))
        if any(v.get('cache') for v in vs):
            variants.append((name, {'cache': True}))
        if name == 'LinkedListNNPS':
            variants.append((name, {'fixed_h': True}))
    out = []
    nhist = 0
    ntrans = 0
    for base in bases:
        dim = base['dim']
        lat = U.lattice(dim, 3)
        k = len(base['pts'])
        ops = history_ops(dim, lat, k, 2, thorough)
        for name, kw in variants:
            kwl = [list(x) for x in sorted(kw.items())]
            for seq in itertools.product(ops, repeat=depth):
                klass = hist_class(base, seq)
                if [name, klass] in skip:
                    continue
                crumb(dict(ident=[None, name, kwl], klass=klass,
                           cfg=dict(base=base, seq=list(seq))))
                # rebuild fresh arrays and ONE nnps object for the sequence
                pas = U.make_arrays(base)
                loc = []
                cnt = [0, 0]
                for a in base['arr']:
                    loc.append((a, cnt[a]))
                    cnt[a] += 1
                try:
                    nn = U.make_nnps(name, dim, pas, kw)
                    ok = True
                    for op in seq:
                        if kw.get('fixed_h') and op[0] in ('seth', 'append'):
                            ok = False
                            break
                        if not apply_op(pas, loc, op, lat):
                            ok = False
                            break
                        nn.update_domain()
                        nn.update()
                        ntrans += 1
                        got = U.query_all(nn, pas)
                        pr = U.check_lists(pas, got)
                        if pr:
                            out.append((name, 'after-update:' + pr[0][0], kw,
                                        pr[0][1], dict(base=base,
                                                       seq=list(seq))))
                            break
                    if ok:
                        nhist += 1
                except Exception as e:  # noqa
                    out.append((name, 'exception:%s' % type(e).__name__, kw,
                                repr(e), dict(base=base, seq=list(seq))))
    return nhist, ntrans, out


def history_bases(thorough):
    out = []
    for dim in (1, 2, 3):
        lat = U.lattice(dim, 3)
        sel = range(len(lat)) if dim == 1 else \
            [0, len(lat) // 2, len(lat) - 1]
        for k in (1, 2):
            for ms in itertools.combinations_with_replacement(sel, k):
                pts = [lat[i] for i in ms]
                for ap in ([(0,) * k] + ([(0, 1)] if k == 2 else [])):
                    out.append(dict(dim=dim, pts=pts, h=[H0] * k,
                                    arr=list(ap), narr=2))
    return out


# ---------------------------------------------------------------------------
# thread counts used to fill the cache
# ---------------------------------------------------------------------------
def _thread_job(args):
    cfgs, counts, only, skip = args
    from pysph.base.nnps_base import set_number_of_threads
    table = {k: v for k, v in U.algos(False).items() if k == only}
    out = []
    ne = 0
    for nt in counts:
        set_number_of_threads(nt)
        for cfg in cfgs:
            pas = U.make_arrays(cfg)
            ref = U.brute_all(pas)
            klass = 'threads:' + sig_of(cfg)
            for name in table:
                if name == 'DictBoxSortNNPS':
                    continue
                if [name, klass] in skip or [name, sig_of(cfg)] in skip:
                    continue
                # the thread count also selects the tree builder of the
                # octrees: deep trees (small leaves), with and without cache
                kws = [{'cache': True}]
                if 'Octree' in name:
                    kws += [{'cache': True, 'leaf_max_particles': 2},
                            {'cache': False, 'leaf_max_particles': 2},
                            {'cache': False, 'leaf_max_particles': 4}]
                for kw in kws:
                    kwl = [[k, kw[k]] for k in sorted(kw)]
                    crumb(dict(ident=[None, name, kwl], klass=klass,
                               cfg=dict(cfg=cfg, threads=nt)))
                    try:
                        nn = U.make_nnps(name, cfg['dim'], pas, dict(kw))
                        got = U.query_all(nn, pas,
                                          use_find_all=kw['cache'])
                        pr = U.check_lists(pas, got, False, ref)
                    except Exception as e:  # noqa
                        pr = [('exception:%s' % type(e).__name__, repr(e))]
                    ne += 1
                    for kind, det in pr[:1]:
                        out.append((name, 'threads:' + kind,
                                    dict(kw, threads=nt), det, cfg))
    set_number_of_threads(1)
    return ne, out


def dense_configs(seed):
    """A few larger deterministic clouds (so that several threads each get
    many destination particles): lattice blocks with graded h."""
    out = []
    for dim in (1, 2, 3):
        n = {1: 40, 2: 9, 3: 5}[dim]
        lat = U.lattice(dim, n)
        h = [H0 * (1 + (i * 7 % 5) * 0.5) for i in range(len(lat))]
        arr = [(i * 3 + i // 4) % 2 for i in range(len(lat))]
        out.append(dict(dim=dim, pts=lat, h=h, arr=arr, narr=2))
        # clustered: every point twice + one far outlier
        pts = lat[:len(lat) // 2] * 2 + [tuple(
            (20.0 if a < dim else 0.0) for a in range(3))]
        out.append(dict(dim=dim, pts=pts, h=[H0] * len(pts),
                        arr=[i % 2 for i in range(len(pts))], narr=2))
    return out


def run(ctx):
    cfgs = list(static_configs(ctx.thorough, ctx.seed))
    k = ctx.seed % len(IMG)
    images = IMG if ctx.thorough else IMG[k:] + IMG[:k]
    chunk = max(20, len(cfgs) // (ctx.ncpu * 12))
    jobs = [(cfgs[i:i + chunk], images, ctx.thorough)
            for i in range(0, len(cfgs), chunk)]
    import shutil
    shutil.rmtree(CRUMB_DIR, ignore_errors=True)
    viols = {}

    def add(name, kind, kw, det, where, klass):
        knob = ','.join('%s=%s' % (k, v) for k, v in sorted(kw.items())
                        if k not in ('cache', 'sort_gids', 'threads'))
        base_kind = kind.split(':')[-1]
        if base_kind in ('missing', 'spurious', 'duplicate', 'invalid-index') \
                and isinstance(det, (tuple, list)) and len(det) >= 2:
            # list problems are keyed by whether the query crosses arrays
            klass = 'same-array' if det[0] == det[1] else 'cross-array'
            if kind.startswith('after-update') or kind.startswith('threads'):
                kind = kind.split(':')[0] + ':' + base_kind
        key = 'nnps:%s:%s:%s' % (name, kind, klass)
        size = len(repr(where))
        if key not in viols or size < viols[key][0]:
            viols[key] = (size, '%s %s with %r: %r' % (name, kind, kw, det),
                          dict(algo=name, kw=kw, where=where))
    skip = []
    ne = 0
    ncfg = 0
    nontriv = set()
    # phase 1: a thin pilot slice finds crashing (variant, class) pairs
    # cheaply; phase 2: everything, with those pairs skipped.
    algo_names = list(U.algos(False))
    if _os.environ.get('VERIF_C01_ONLY'):
        # development aid (not used by registered commands)
        algo_names = [a for a in algo_names
                      if a in _os.environ['VERIF_C01_ONLY'].split(',')]
    pilot = cfgs[::97]
    pj = [(pilot[i:i + 40], images, ctx.thorough, a)
          for a in algo_names for i in range(0, len(pilot), 40)]
    chunk = max(40, len(cfgs) // (ctx.ncpu * 2))
    fj = [(cfgs[i:i + chunk], images, ctx.thorough, a)
          for i in range(0, len(cfgs), chunk) for a in algo_names]
    for phase, js in (('pilot', pj), ('full', fj)):
        pending = list(range(len(js)))
        rounds = 0
        while pending:
            rounds += 1
            if rounds > 400:
                raise RuntimeError('too many crash rounds')
            res = map_jobs(_static_job,
                           [js[i] + (list(skip),) for i in pending],
                           ctx.ncpu, job_timeout=900)
            nxt = []
            for i, r in zip(pending, res):
                if isinstance(r, Crash):
                    cr = read_crumb(r.pid)
                    if cr is None:
                        raise RuntimeError('crash without breadcrumb: %r' % r)
                    tag, name, kwl = cr['ident']
                    c = cr['cfg']
                    c['pts'] = [tuple(p) for p in c['pts']]
                    add(name, 'crash', dict(kwl), r.reason, dict(cfg=c),
                        sig_of(c))
                    ent = [name, sig_of(c)]
                    if ent not in skip:
                        skip.append(ent)
                    nxt.append(i)
                    continue
                if phase == 'pilot':
                    continue
                n, nc, nt, out = r
                ne += n
                if js[i][3] == algo_names[0]:
                    ncfg += nc
                    nontriv |= nt
                for name, kind, kw, det, c in out:
                    add(name, kind, kw, det, dict(cfg=c), sig_of(c))
            pending = nxt

    def run_phase(fn, payloads, ncpu, on_ok):
        """Crash-resilient phase: a crashing (variant, class) is recorded,
        added to the skip list and the job re-queued."""
        pending = list(range(len(payloads)))
        rounds = 0
        while pending:
            rounds += 1
            if rounds > 300:
                raise RuntimeError('too many crash rounds')
            res = map_jobs(fn, [payloads[i] + (list(skip),) for i in pending],
                           ncpu, job_timeout=1200)
            nxt = []
            for i, r in zip(pending, res):
                if isinstance(r, Crash):
                    cr = read_crumb(r.pid)
                    if cr is None:
                        raise RuntimeError('crash without breadcrumb: %r' % r)
                    tag, name, kwl = cr['ident']
                    kl = cr['klass']
                    if kl.startswith('threads:'):
                        # a crash while several threads fill the cache is
                        # memory corruption: where it strikes varies from
                        # run to run, so the input class is not in the key
                        kl = 'threads'
                    add(name, 'crash', dict(kwl), r.reason, cr['cfg'], kl)
                    ent = [name, cr['klass']]
                    if ent not in skip:
                        skip.append(ent)
                    nxt.append(i)
                else:
                    on_ok(r)
            pending = nxt

    # histories
    bases = history_bases(ctx.thorough)
    if not ctx.thorough:
        bases = bases[ctx.seed % 2::2]
    depth = 2
    hstat = [0, 0]

    def h_ok(r):
        a, b, out = r
        hstat[0] += a
        hstat[1] += b
        for name, kind, kw, det, where in out:
            add(name, kind, kw, det, where, 'history')
    run_phase(_history_job, [([b], depth, ctx.thorough, a) for b in bases
                             for a in algo_names], ctx.ncpu, h_ok)
    nhist, ntrans = hstat
    # threads
    counts = [1, 2, 3, 4, 8, 16] if ctx.thorough else [2, 3, 16]
    tcfgs = dense_configs(ctx.seed) + cfgs[::max(1, len(cfgs) // 200)]
    tstat = [0]

    def t_ok(r):
        n, out = r
        tstat[0] += n
        for name, kind, kw, det, c in out:
            add(name, kind, kw, det, dict(cfg=c), 'threads')
    run_phase(_thread_job, [(tcfgs, counts, a) for a in algo_names
                            if a != 'DictBoxSortNNPS'],
              min(ctx.ncpu, 8), t_ok)
    nthr = tstat[0]
    import shutil as _sh
    _sh.rmtree(CRUMB_DIR, ignore_errors=True)
    vs = [Violation(k, w, rep) for k, (sz, w, rep) in sorted(viols.items())]
    table = U.algos(ctx.thorough)
    cov = dict(
        states=ncfg + (ncfg * len(images) if ctx.thorough
                       else (ncfg + 3) // 4) + nhist,
        transitions=ne + ntrans + nthr,
        traces_validated_against_impl=ne + ntrans + nthr,
        static_configurations=ncfg, images=['identity'] + images,
        algorithm_variants={k: len(v) for k, v in table.items()},
        static_evaluations=ne, distinct_nontrivial_configurations=len(nontriv),
        update_histories=nhist, update_transitions=ntrans,
        history_depth=depth, history_bases=len(bases),
        thread_count_evaluations=nthr, thread_counts=counts,
        exhaustive=True,
        samples=[cfgs[(ctx.seed * 31 + 1000) % len(cfgs)],
                 dict(history_base=bases[ctx.seed % len(bases)])],
        rule='all multisets of <=k points of a half-cell lattice (1-D 9 '
             'points k<=4; 2-D 4x4 k<=3 and 3x3 k<=4; 3-D 3x3x3 k<=3) x h '
             'patterns x 4 array splits x affine images, each run through '
             'every algorithm variant (all (dst,src) pairs, cache on/off); '
             'update histories: all sequences of length 2 over move/set-h/'
             'append/remove from %d base configurations on one long-lived '
             'NNPS object per sequence; non-trivial = at least one true '
             'neighbour pair' % len(bases))
    assumptions = [
        'pairs within 1e-10 relative (+16 ulp of the coordinate magnitude) '
        'of the cut-off may go either way',
        'OpenMP interleavings inside find_all_neighbors are not enumerated: '
        'thread counts are (static schedule => fixed index-to-thread map)',
        'GPU NNPS classes not covered',
    ]
    return Result('model_checking', cov, assumptions, vs)


def replay(ctx, obj):
    name, kw, where = obj['algo'], obj['kw'], obj['where']
    kw = {k: v for k, v in kw.items() if k != 'threads'}
    if 'cfg' in where:
        cfg = where['cfg']
        cfg['pts'] = [tuple(p) for p in cfg['pts']]
        pas = U.make_arrays(cfg)
        nn = U.make_nnps(name, cfg['dim'], pas, kw)
        got = U.query_all(nn, pas, use_find_all=bool(kw.get('cache')))
        pr = U.check_lists(pas, got, kw.get('sort_gids', False))
        return dict(violates=bool(pr), problems=pr[:3])
    base = where['base']
    base['pts'] = [tuple(p) for p in base['pts']]
    lat = U.lattice(base['dim'], 3)
    pas = U.make_arrays(base)
    loc = []
    cnt = [0, 0]
    for a in base['arr']:
        loc.append((a, cnt[a]))
        cnt[a] += 1
    nn = U.make_nnps(name, base['dim'], pas, kw)
    pr = []
    for op in where['seq']:
        apply_op(pas, loc, tuple(op), lat)
        nn.update_domain()
        nn.update()
        pr = U.check_lists(pas, U.query_all(nn, pas))
        if pr:
            break
    return dict(violates=bool(pr), problems=pr[:3])
