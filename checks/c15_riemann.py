"""C15 - Riemann solvers: reflection symmetry and admissibility.

E4a: complete enumeration of a decade lattice of left/right gas states for
all eleven solver functions and the dispatcher; metamorphic oracles.
See DESIGN.md section 4, C15.
"""
import itertools
import math

from vlib.runner import Result, Violation
from vlib.pool import map_jobs, Crash

SOLVERS = ['non_diffusive', 'van_leer', 'exact', 'hllc', 'ducowicz', 'hlle',
           'roe', 'llxf', 'hllc_ball', 'hll_ball', 'hllsy']
METHOD = {n: i for i, n in enumerate(SOLVERS)}
ITERATIVE = ('van_leer', 'exact')

RP_FULL = [1e-6, 1e-3, 0.1, 1.0, 10.0, 1e3, 1e6]
U_FULL = [-10.0, -1.0, -0.1, 0.0, 0.1, 1.0, 10.0]
G_FULL = [1.1, 1.4, 5.0 / 3, 2.0, 3.0]
IT_FULL = [(20, 1e-6), (5, 1e-6), (50, 1e-10)]
EPS_D = 2.220446049250313e-16


def sublattice(seed, thorough):
    if thorough:
        return RP_FULL, U_FULL, G_FULL, IT_FULL
    # fixed core + one rotating extra value per axis
    rp = [1e-3, 0.1, 1.0, 10.0] + [[1e-6, 1e3, 1e6][seed % 3]]
    u = [-1.0, 0.0, 0.1, 1.0] + [[-10.0, 10.0, -0.1][seed % 3]]
    g = [1.4, 5.0 / 3] + [[1.1, 2.0, 3.0][seed % 3]]
    it = [(20, 1e-6), [(5, 1e-6), (50, 1e-10)][seed % 2]]
    return sorted(rp), sorted(u), g, it


def call(fn, st, gamma, niter, tol):
    """Returns (rc, p, u) or ('raise', name, msg)."""
    res = [0.0, 0.0]
    rl, rr, pl, pr, ul, ur = st
    try:
        rc = fn(rl, rr, pl, pr, ul, ur, gamma, niter, tol, res)
    except (ZeroDivisionError, OverflowError, ValueError) as e:
        # C arithmetic would give inf/nan here; counts as a failure report
        return ('arith', type(e).__name__, str(e)[:80])
    except TypeError as e:
        if 'complex' in str(e):
            # negative base to a fractional power: nan in C
            return ('arith', type(e).__name__, str(e)[:80])
        return ('raise', type(e).__name__, str(e)[:80])
    except Exception as e:  # noqa
        return ('raise', type(e).__name__, str(e)[:80])
    if isinstance(res[0], complex) or isinstance(res[1], complex):
        return ('arith', 'complex', '')
    return (rc, res[0], res[1])


def scales(st, gamma):
    rl, rr, pl, pr, ul, ur = st
    cl = math.sqrt(gamma * pl / rl)
    cr = math.sqrt(gamma * pr / rr)
    U = max(abs(ul), abs(ur), cl, cr)
    # pressure scale against which rounding is judged: static pressures,
    # acoustic impedance x velocity, and (for extreme density ratios, where
    # the quadratic solvers cancel at sqrt(eps)) a fraction of the dynamic
    # pressure
    P = max(pl, pr, rl * cl * U, rr * cr * U, 1e-3 * rl * U * U,
            1e-3 * rr * U * U)
    return P, U, cl, cr


def isnum(x):
    return isinstance(x, float) or isinstance(x, int)


def close(a, b, tol):
    if not (isnum(a) and isnum(b)):
        return False
    if a != a or b != b:
        return (a != a) and (b != b)
    if a == b:
        return True
    return abs(a - b) <= tol


# independent pressure function (Toro, ch. 4) for the exact solver residual
def f_side(p, rho, pk, ck, g):
    if p <= pk:
        return (2.0 * ck / (g - 1.0)) * ((p / pk) ** ((g - 1.0) / (2 * g)) - 1.0), \
            (1.0 / (rho * ck)) * (p / pk) ** (-(g + 1.0) / (2 * g))
    A = 2.0 / ((g + 1.0) * rho)
    B = (g - 1.0) / (g + 1.0) * pk
    q = math.sqrt(A / (B + p))
    return (p - pk) * q, (1.0 - 0.5 * (p - pk) / (B + p)) * q


def sensitivity(fn, st, gamma, niter, tol, base):
    """Largest change of (p*, u*) under a 1-ulp nudge of any single input:
    a measured estimate of how much pure rounding can move the result for
    this state (cancellation in the closed-form solvers)."""
    sp = su = 0.0
    for i in range(6):
        for d in (math.inf, -math.inf):
            s2 = list(st)
            # 1e-12 relative (a few thousand ulp): single-ulp nudges can
            # fall inside one quantum of a catastrophically cancelled sum
            s2[i] = st[i] * (1 + math.copysign(1e-12, d)) if st[i] != 0 \
                else math.copysign(1e-12, d)
            r = call(fn, tuple(s2), gamma, niter, tol)
            if r[0] != 0 or not (isnum(r[1]) and isnum(r[2])):
                return math.inf, math.inf
            sp = max(sp, abs(r[1] - base[1]))
            su = max(su, abs(r[2] - base[2]))
    return sp, su


class _T(object):
    """float wrapper that records the largest magnitude of any intermediate
    value (the scale at which double rounding acts on the final result)."""
    __slots__ = ('v',)
    M = [0.0]

    def __init__(self, v):
        self.v = float(v)
        a = abs(self.v)
        if a > _T.M[0] and a != math.inf:
            _T.M[0] = a

    @staticmethod
    def _f(o):
        return o.v if isinstance(o, _T) else float(o)

    def __add__(self, o): return _T(self.v + _T._f(o))
    __radd__ = __add__
    def __sub__(self, o): return _T(self.v - _T._f(o))
    def __rsub__(self, o): return _T(_T._f(o) - self.v)
    def __mul__(self, o): return _T(self.v * _T._f(o))
    __rmul__ = __mul__
    def __truediv__(self, o): return _T(self.v / _T._f(o))
    def __rtruediv__(self, o): return _T(_T._f(o) / self.v)
    def __pow__(self, o): return _T(self.v ** _T._f(o))
    def __rpow__(self, o): return _T(_T._f(o) ** self.v)
    def __neg__(self): return _T(-self.v)
    def __abs__(self): return _T(abs(self.v))
    def __float__(self): return self.v
    def __lt__(self, o): return self.v < _T._f(o)
    def __le__(self, o): return self.v <= _T._f(o)
    def __gt__(self, o): return self.v > _T._f(o)
    def __ge__(self, o): return self.v >= _T._f(o)
    def __eq__(self, o): return self.v == _T._f(o)
    def __ne__(self, o): return self.v != _T._f(o)
    def __hash__(self): return hash(self.v)
    def __bool__(self): return bool(self.v)


def max_intermediate(fn, st, gamma, niter, tol):
    """Largest |intermediate| while evaluating fn on st (0 on failure)."""
    g = fn.__globals__
    old = g.get('sqrt')
    g['sqrt'] = lambda x: _T(math.sqrt(_T._f(x)))
    _T.M[0] = 0.0
    try:
        res = [0.0, 0.0]
        fn(*[_T(x) for x in st], _T(gamma), niter, tol, res)
    except Exception:  # noqa
        return math.inf
    finally:
        g['sqrt'] = old
    return _T.M[0]


def call_ld(fn, st, gamma, niter, tol):
    """Same solver source evaluated in extended precision (numpy
    longdouble, sqrt patched in the module's globals): a side swap or sign
    error survives this, a cancellation artefact of double precision does
    not."""
    import numpy as np
    g = fn.__globals__
    old = g.get('sqrt')
    g['sqrt'] = np.sqrt
    try:
        r = call(fn, tuple(np.longdouble(x) for x in st),
                 np.longdouble(gamma), niter, tol)
    finally:
        g['sqrt'] = old
    if r[0] == 0:
        try:
            return (0, float(r[1]), float(r[2]))
        except Exception:  # noqa
            return ('arith', 'conv', '')
    return r


def _cond_equal(fn, st, gamma, niter, tol, base):
    sp, su = sensitivity(fn, st, gamma, niter, tol, base)
    if close(base[1], st[2], 100 * sp) and close(base[2], st[4], 100 * su):
        return True
    M = max_intermediate(fn, st, gamma, niter, tol)
    if close(base[1], st[2], 256 * EPS_D * M) and \
            close(base[2], st[4], 100 * su + 1e-9 * max(abs(st[4]), 1e-300)):
        return True
    hb = call_ld(fn, st, gamma, niter, tol)
    P, U, cl, cr = scales(st, gamma)
    return hb[0] == 0 and close(hb[1], st[2], 1e-9 * P) and \
        close(hb[2], st[4], 1e-9 * U)


def check_state(R, name, st, gamma, niter, tol):
    """All oracles for one solver on one state.  Returns list of
    (key, what) and the number of solver evaluations."""
    fn = getattr(R, name)
    rl, rr, pl, pr, ul, ur = st
    out = []
    n = 0
    base = call(fn, st, gamma, niter, tol)
    mir = call(fn, (rr, rl, pr, pl, -ur, -ul), gamma, niter, tol)
    n += 2
    P, U, cl, cr = scales(st, gamma)
    rel = 1e-9 if name not in ITERATIVE else max(1e-9, 10 * tol)
    if base[0] == 'raise' or mir[0] == 'raise':
        # raising instead of returning a code = not reporting
        which = base if base[0] == 'raise' else mir
        out.append(('raises:%s' % which[1],
                    '%s raised %s(%s) instead of returning a status' % (
                        name, which[1], which[2])))
        return out, n
    # reflection symmetry ('arith' = arithmetic fault = failure report)
    fb = 1 if base[0] == 'arith' else base[0]
    fm = 1 if mir[0] == 'arith' else mir[0]
    if (fb == 0) != (fm == 0):
        out.append(('reflection:return-code',
                    'return code %r vs mirrored %r' % (base[0], mir[0])))
    elif base[0] == 0:
        ps = max(P, abs(base[1]) if isnum(base[1]) else 0.0)
        okp = close(base[1], mir[1], rel * ps)
        oku = (isnum(base[2]) and isnum(mir[2]) and
               close(base[2], -mir[2], rel * max(U, abs(base[2]))))
        if not (okp and oku):
            # conditioned tolerance: allow 100 x the measured 1e-12
            # sensitivity of this solver at this state
            sp, su = sensitivity(fn, st, gamma, niter, tol, base)
            sp2, su2 = sensitivity(fn, (rr, rl, pr, pl, -ur, -ul), gamma,
                                   niter, tol, mir)
            sp, su = max(sp, sp2), max(su, su2)
            n += 24
            okp = okp or close(base[1], mir[1], 100 * sp)
            oku = oku or (isnum(base[2]) and isnum(mir[2]) and
                          close(base[2], -mir[2], 100 * su))
            if not okp and name not in ITERATIVE:
                # closed-form solvers: rounding acts at eps x the largest
                # intermediate value (measured), e.g. rho^2*gamma*p in
                # ducowicz for extreme densities
                M = max(max_intermediate(fn, st, gamma, niter, tol),
                        max_intermediate(fn, (rr, rl, pr, pl, -ur, -ul),
                                         gamma, niter, tol))
                okp = close(base[1], mir[1], 256 * EPS_D * M)
            if not (okp and oku):
                hb = call_ld(fn, st, gamma, niter, tol)
                hm = call_ld(fn, (rr, rl, pr, pl, -ur, -ul), gamma, niter,
                             tol)
                n += 2
                if hb[0] == 0 and hm[0] == 0 and \
                        close(hb[1], hm[1], rel * max(ps, abs(hb[1]))) and \
                        close(hb[2], -hm[2], rel * max(U, abs(hb[2]))):
                    okp = oku = True
        if not okp:
            out.append(('reflection:pstar', 'p*=%r mirrored p*=%r (scale %g)'
                        % (base[1], mir[1], ps)))
        elif not oku:
            out.append(('reflection:ustar', 'u*=%r mirrored u*=%r (scale %g)'
                        % (base[2], mir[2], U)))
    # equal sides
    if rl == rr and pl == pr and ul == ur:
        if base[0] != 0:
            out.append(('equal-sides:return-code', 'rc=%r for identical '
                        'states' % (base[0],)))
        elif not (close(base[1], pl, rel * P) and close(base[2], ul, rel * U)) \
                and not _cond_equal(fn, st, gamma, niter, tol, base):
            out.append(('equal-sides:state', 'identical states (p=%r,u=%r) '
                        'give p*=%r u*=%r' % (pl, ul, base[1], base[2])))
    # dispatcher
    m = METHOD[name]
    disp = call(lambda *a: R.riemann_solve(m, *a), st, gamma, niter, tol)
    n += 1
    same = disp[0] == base[0] and (disp[0] != 0 or (
        close(disp[1], base[1], 0.0) and close(disp[2], base[2], 0.0)))
    if not same:
        out.append(('dispatch', 'riemann_solve(method=%d) gave %r, %s gave %r'
                    % (METHOD[name], disp, name, base)))
    if name in ITERATIVE:
        vac = (2.0 / (gamma - 1.0)) * (cl + cr) <= (ur - ul)
        if name == 'exact' and vac and base[0] == 0:
            out.append(('vacuum-not-reported', 'vacuum generating data but '
                        'exact returned 0 (p*=%r)' % (base[1],)))
        if base[0] == 0:
            p, u = base[1], base[2]
            if not (isnum(p) and math.isfinite(p) and p > 0 and
                    isnum(u) and math.isfinite(u)):
                out.append(('inadmissible', 'success with p*=%r u*=%r'
                            % (p, u)))
                return out, n
            # Galilean shift
            c = 3.7
            sh = call(fn, (rl, rr, pl, pr, ul + c, ur + c), gamma, niter, tol)
            n += 1
            if sh[0] == 0:
                if not close(sh[1], p, rel * max(P, p)):
                    out.append(('galilean:pstar', 'p*=%r, shifted frame p*=%r'
                                % (p, sh[1])))
                elif not close(sh[2], u + c, rel * max(U, abs(c))):
                    out.append(('galilean:ustar', 'u*=%r, shifted frame '
                                'u*-c=%r' % (u, sh[2] - c)))
            # scaling of p and rho
            lam = 8.0
            sc = call(fn, (lam * rl, lam * rr, lam * pl, lam * pr, ul, ur),
                      gamma, niter, tol)
            n += 1
            if sc[0] == 0:
                if not close(sc[1], lam * p, rel * lam * max(P, p)):
                    out.append(('scaling:pstar', 'p*=%r, scaled data p*/lam=%r'
                                % (p, sc[1] / lam)))
                elif not close(sc[2], u, rel * U):
                    out.append(('scaling:ustar', 'u*=%r, scaled data u*=%r'
                                % (u, sc[2])))
            if name == 'exact':
                fl, fdl = f_side(p, rl, pl, cl, gamma)
                fr, fdr = f_side(p, rr, pr, cr, gamma)
                step = (fl + fr + (ur - ul)) / (fdl + fdr)
                if abs(step) > 2 * tol * p + 1e-12 * P:
                    out.append(('exact:residual', 'p*=%r is not a root of '
                                'the pressure function: Newton step %r '
                                '(tol %g)' % (p, step, tol)))
                um = 0.5 * (ul + ur + fr - fl)
                if not close(u, um, 1e-9 * U + 2 * tol * U):
                    out.append(('exact:ustar', 'u*=%r, from pressure '
                                'function %r' % (u, um)))
    return out, n


def _job(args):
    import pysph.sph.gas_dynamics.riemann_solver as R
    import io
    import contextlib
    states, gammas, its = args
    viol = {}
    ncall = 0
    nst = 0
    distinct = set()
    buf = io.StringIO()
    import warnings
    warnings.simplefilter('ignore')
    with contextlib.redirect_stdout(buf):
        for st in states:
            for g in gammas:
                for (niter, tol) in its:
                    nst += 1
                    for name in SOLVERS:
                        pr, n = check_state(R, name, st, g, niter, tol)
                        ncall += n
                        for key, what in pr:
                            k = 'riemann:%s:%s' % (name, key)
                            if k not in viol:
                                viol[k] = (what, dict(solver=name,
                                                      state=list(st), gamma=g,
                                                      niter=niter, tol=tol))
                    rl, rr, pl, pr_, ul, ur = st
                    if not (rl == rr and pl == pr_ and ul == ur):
                        distinct.add((rl / rr, pl / pr_, ur - ul, g))
    return nst, ncall, len(distinct), viol


def run(ctx):
    rp, us, gs, its = sublattice(ctx.seed, ctx.thorough)
    states = [(a, b, c, d, e, f) for a in rp for b in rp for c in rp
              for d in rp for e in us for f in us]
    chunk = max(200, len(states) // (ctx.ncpu * 8))
    jobs = [(states[i:i + chunk], gs, its)
            for i in range(0, len(states), chunk)]
    res = map_jobs(_job, jobs, ctx.ncpu)
    viol = {}
    nst = ncall = ndist = 0
    for r in res:
        if isinstance(r, Crash):
            raise RuntimeError('worker crashed %r' % r)
        a, b, c, v = r
        nst += a
        ncall += b
        ndist += c
        for k, x in v.items():
            viol.setdefault(k, x)
    vs = [Violation(k, '%s [state rho=(%g,%g) p=(%g,%g) u=(%g,%g) gamma=%g '
                    'niter=%d tol=%g]' % ((w,) + tuple(rep['state'][i] for i in
                                                        (0, 1, 2, 3, 4, 5)) +
                                          (rep['gamma'], rep['niter'],
                                           rep['tol'])), rep)
          for k, (w, rep) in sorted(viol.items())]
    cov = dict(evaluations=ncall, distinct_nontrivial=ndist,
               states=nst, solvers=len(SOLVERS), exhaustive=True,
               lattice=dict(rho_p=rp, u=us, gamma=gs, niter_tol=its),
               samples=[dict(state=list(states[(ctx.seed * 977 + 31337)
                                               % len(states)]),
                             gamma=gs[0], niter_tol=its[0])],
               rule='full product (rho_l,rho_r,p_l,p_r) in rho_p^4 x '
                    '(u_l,u_r) in u^2 x gamma x (niter,tol); for each state '
                    'every solver is evaluated on the state, its mirror '
                    'image, through the dispatcher and (contact solvers) on '
                    'a Galilean-shifted and a scaled copy; distinct '
                    'non-trivial = distinct (rho ratio, p ratio, du, gamma) '
                    'with unequal sides, counted per worker chunk')
    assumptions = ['nothing is claimed between lattice points',
                   'tolerances are conditioned: p* compared at 1e-9*max(p_l,'
                   'p_r,p*,rho*c*U), u* at 1e-9*U; iterative solvers at '
                   'max(1e-9,10*tol)',
                   'pure-Python execution of the solver functions (the same '
                   'source is transpiled for GSPH)']
    return Result('exploration', cov, assumptions, vs)


def replay(ctx, obj):
    import pysph.sph.gas_dynamics.riemann_solver as R
    pr, n = check_state(R, obj['solver'], tuple(obj['state']), obj['gamma'],
                        obj['niter'], obj['tol'])
    return dict(violates=bool(pr), problems=pr)
