"""Shared helpers for the NNPS based checks (C01, C07, C17)."""
import itertools

import numpy as np

H0 = 0.5
RS = 2.0


def algos(thorough=False):
    """name -> list of kwargs variants (first = default)."""
    cs = [dict(), dict(cache=True), dict(sort_gids=True),
          dict(cache=True, sort_gids=True)]

    def prod(base_list, **knobs):
        out = []
        if thorough:
            keys = sorted(knobs)
            for vals in itertools.product(*[knobs[k] for k in keys]):
                for b in base_list:
                    d = dict(b)
                    d.update(dict(zip(keys, vals)))
                    out.append(d)
        else:
            # deviation bound 1 from the default (first value of each knob)
            out = [dict(b) for b in base_list]
            for k, vals in sorted(knobs.items()):
                for v in vals[1:]:
                    out.append({k: v})
        # de-duplicate
        seen = []
        for d in out:
            if d not in seen:
                seen.append(d)
        return seen
    t = {}
    t['DictBoxSortNNPS'] = prod([dict(), dict(sort_gids=True)])
    t['BoxSortNNPS'] = prod(cs)
    t['LinkedListNNPS'] = prod(cs, fixed_h=[False, True])
    t['SpatialHashNNPS'] = prod(cs, table_size=[131072, 1, 7])
    t['ExtendedSpatialHashNNPS'] = prod(cs, H=[3, 1, 2],
                                        table_size=[131072, 1, 7])
    t['CellIndexingNNPS'] = prod(cs)
    t['ZOrderNNPS'] = prod(cs)
    t['ExtendedZOrderNNPS'] = prod(cs, H=[3, 1, 2],
                                   asymmetric=[False, True])
    t['StratifiedHashNNPS'] = prod(cs, H=[1, 3], num_levels=[1, 2, 3],
                                   table_size=[131072, 1, 7])
    # (StratifiedSFCNNPS.__cinit__ does not accept `asymmetric`, so that
    # knob cannot be set at all; only its default is reachable)
    t['StratifiedSFCNNPS'] = prod(cs, num_levels=[1, 2, 3])
    t['OctreeNNPS'] = prod(cs, leaf_max_particles=[10, 2, 4])
    t['CompressedOctreeNNPS'] = prod(cs, leaf_max_particles=[10, 2, 4])
    return t


def make_arrays(cfg, extra_props=False):
    """cfg: dict(dim, pts=[(x,y,z)], h=[...], arr=[0/1...], narr)"""
    from pysph.base.utils import get_particle_array
    narr = cfg.get('narr', max(cfg['arr']) + 1 if cfg['arr'] else 1)
    pas = []
    gid0 = 0
    for a in range(narr):
        idx = [i for i, k in enumerate(cfg['arr']) if k == a]
        x = np.array([cfg['pts'][i][0] for i in idx], dtype=float)
        y = np.array([cfg['pts'][i][1] for i in idx], dtype=float)
        z = np.array([cfg['pts'][i][2] for i in idx], dtype=float)
        h = np.array([cfg['h'][i] for i in idx], dtype=float)
        pa = get_particle_array(name='a%d' % a, x=x, y=y, z=z, h=h)
        n = len(idx)
        # global ids that are neither the identity nor ordered like the
        # local indices (sort_gids must sort by them yet return indices)
        pa.gid[:] = (7 + gid0 + np.arange(n)[::-1]).astype(np.uint32)
        gid0 += n
        pas.append(pa)
    return pas


def brute(pas, rs, si, di, band_rel=1e-10):
    """Returns (must, may): lists (per destination particle) of index sets."""
    s, d = pas[si], pas[di]
    sx, sy, sz, sh = s.get('x', 'y', 'z', 'h', only_real_particles=False)
    dx, dy, dz, dh = d.get('x', 'y', 'z', 'h', only_real_particles=False)
    ns, nd = len(sx), len(dx)
    must, may = [], []
    if nd == 0:
        return must, may
    cm = 0.0
    for a in (sx, sy, sz, dx, dy, dz):
        if len(a):
            cm = max(cm, float(np.max(np.abs(a))))
    for i in range(nd):
        if ns == 0:
            must.append(set())
            may.append(set())
            continue
        dist = np.sqrt((sx - dx[i]) ** 2 + (sy - dy[i]) ** 2 +
                       (sz - dz[i]) ** 2)
        r = rs * np.maximum(sh, dh[i])
        band = band_rel * r + 16 * np.finfo(float).eps * cm
        must.append(set(np.nonzero(dist < r - band)[0].tolist()))
        may.append(set(np.nonzero(dist <= r + band)[0].tolist()))
    return must, may


def make_nnps(name, dim, pas, kw, domain=None):
    import pysph.base.nnps as N
    cls = getattr(N, name)
    kw = dict(kw)
    if domain is not None:
        kw['domain'] = domain
    return cls(dim=dim, particles=pas, radius_scale=RS, **kw)


def query_all(nnps, pas, use_find_all=False):
    """Returns dict (di, si) -> list of neighbour lists."""
    from cyarray.api import UIntArray
    out = {}
    nbrs = UIntArray()
    for di in range(len(pas)):
        nd = pas[di].get_number_of_particles()
        for si in range(len(pas)):
            lst = []
            # documented protocol: set_context before asking for neighbours
            nnps.set_context(si, di)
            if use_find_all:
                nnps.current_cache.find_all_neighbors()
            for i in range(nd):
                nnps.get_nearest_particles(si, di, i, nbrs)
                lst.append(nbrs.get_npy_array()[:nbrs.length].tolist())
            out[(di, si)] = lst
    return out


def brute_all(pas):
    return {(di, si): brute(pas, RS, si, di) for di in range(len(pas))
            for si in range(len(pas))}


def check_lists(pas, got, sort_gids=False, ref=None):
    """Returns list of (kind, detail) problems."""
    probs = []
    for (di, si), lists in got.items():
        must, may = ref[(di, si)] if ref is not None else \
            brute(pas, RS, si, di)
        ns = pas[si].get_number_of_particles()
        gids = pas[si].get('gid', only_real_particles=False)
        for i, l in enumerate(lists):
            st = set(l)
            if len(st) != len(l):
                probs.append(('duplicate', (di, si, i, l)))
                continue
            if any(j >= ns for j in l):
                probs.append(('invalid-index', (di, si, i, l, ns)))
                continue
            miss = must[i] - st
            if miss:
                probs.append(('missing', (di, si, i, sorted(l),
                                          sorted(miss))))
                continue
            extra = st - may[i]
            if extra:
                probs.append(('spurious', (di, si, i, sorted(l),
                                           sorted(extra))))
                continue
    return probs


def multisets(npts, k):
    return itertools.combinations_with_replacement(range(npts), k)


def lattice(dim, n):
    """n points per axis with spacing H0 (half a cell for h=H0)."""
    rng = [range(n) if a < dim else [0] for a in range(3)]
    return [(i * H0, j * H0, k * H0) for i in rng[0] for j in rng[1]
            for k in rng[2]]


IMAGES = {
    'identity': lambda p: p,
    'far': lambda p: tuple(c + 1.0e6 for c in p),
    'negative': lambda p: tuple(c - 3.0 for c in p),
}
