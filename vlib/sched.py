"""E1: stateless, preemption-bounded schedule explorer for Python code that
uses threading.Lock / RLock / Condition.

Logical threads are real Python threads gated by one semaphore each so that
exactly one runs at any time.  Every operation on a shim primitive (and every
access to a traced container) is a scheduling point: the thread publishes its
pending operation, hands control to the explorer, and is resumed only when the
operation is enabled in the shim state.  The explorer enumerates choice
sequences depth-first with iterative preemption bounding (see DESIGN.md E1).
"""
import hashlib
import threading as _real
import sys


class Abort(BaseException):
    """Raised inside logical threads to unwind an abandoned execution."""


class HarnessError(Exception):
    pass


class _LT(object):
    """A logical thread."""

    def __init__(self, sched, tid, name, fn):
        self.sched = sched
        self.tid = tid
        self.ident = 1000 + tid
        self.name = name
        self.fn = fn
        self.go = _real.Semaphore(0)
        self.pending = None       # (kind, obj, extra)
        self.done = False
        self.exc = None
        self.nops = 0
        self.obs = hashlib.md5()
        self.daemon = True
        self.real = None
        self.started = False

    def observe(self, v):
        self.obs.update(repr(v).encode())

    def _main(self):
        s = self.sched
        self.go.acquire()
        try:
            if s.aborting:
                raise Abort()
            self.fn()
        except Abort:
            pass
        except BaseException as e:  # noqa
            self.exc = e
            import traceback
            self.exc_tb = traceback.format_exc()
        finally:
            self.done = True
            self.pending = None
            s.back.release()


class ShimLock(object):
    _kind = 'Lock'

    def __init__(self, sched, name=None):
        self.s = sched
        self.owner = None
        self.count = 0
        self.lid = sched._new_id(self, name)

    # threading.Lock API
    def acquire(self, blocking=True, timeout=-1):
        s = self.s
        if s.aborting:
            return True
        me = s.current
        if not blocking:
            s.point(('tryacquire', self.lid))
            ok = self._free_for(me)
            if ok:
                self._take(me)
            me.observe(ok)
            return ok
        s.point(('acquire', self.lid), enabled=lambda: self._free_for(me))
        self._take(me)
        return True

    def release(self):
        s = self.s
        if s.aborting:
            return
        s.point(('release', self.lid))
        self._release_check()
        self._drop()

    def locked(self):
        return self.owner is not None

    def __enter__(self):
        self.acquire()
        return self

    def __exit__(self, *a):
        self.release()

    # internals
    def _free_for(self, me):
        return self.owner is None

    def _take(self, me):
        self.owner = me
        self.count = 1

    def _release_check(self):
        if self.owner is None:
            raise RuntimeError('release unlocked lock')

    def _drop(self):
        self.owner = None
        self.count = 0

    def _state(self):
        return (self.lid, self.owner.tid if self.owner else None, self.count)


class ShimRLock(ShimLock):
    _kind = 'RLock'

    def _free_for(self, me):
        return self.owner is None or self.owner is me

    def _take(self, me):
        if self.owner is me:
            self.count += 1
        else:
            self.owner = me
            self.count = 1

    def _release_check(self):
        if self.owner is not self.s.current:
            raise RuntimeError('cannot release un-acquired lock')

    def _drop(self):
        self.count -= 1
        if self.count == 0:
            self.owner = None

    # used by Condition
    def _release_save(self):
        c = self.count
        self.owner = None
        self.count = 0
        return c

    def _acquire_restore(self, me, c):
        self.owner = me
        self.count = c


class ShimCondition(object):
    def __init__(self, sched, lock=None, name=None):
        self.s = sched
        if lock is None:
            lock = ShimRLock(sched, name=(name + '.lock') if name else None)
        self.lock = lock
        self.cid = sched._new_id(self, name)
        self.waiters = []       # list of [thread, notified]
        self.acquire = lock.acquire
        self.release = lock.release

    def __enter__(self):
        self.lock.acquire()
        return self

    def __exit__(self, *a):
        self.lock.release()

    def _is_owned(self):
        return self.lock.owner is self.s.current

    def wait(self, timeout=None):
        s = self.s
        if s.aborting:
            return True
        if timeout is not None:
            raise HarnessError('timed wait not modelled')
        me = s.current
        if not self._is_owned():
            raise RuntimeError('cannot wait on un-acquired lock')
        s.point(('cwait', self.cid))
        ent = [me, False]
        self.waiters.append(ent)
        if isinstance(self.lock, ShimRLock):
            saved = self.lock._release_save()
        else:
            saved = 1
            self.lock._drop()
        s.point(('cwake', self.cid),
                enabled=lambda: ent[1] and self.lock.owner is None,
                blocked_kind='cond')
        if isinstance(self.lock, ShimRLock):
            self.lock._acquire_restore(me, saved)
        else:
            self.lock._take(me)
        return True

    def wait_for(self, predicate, timeout=None):
        r = predicate()
        while not r:
            self.wait(timeout)
            r = predicate()
        return r

    def notify(self, n=1):
        s = self.s
        if s.aborting:
            return
        if not self._is_owned():
            raise RuntimeError('cannot notify on un-acquired lock')
        s.point(('notify', self.cid, n))
        k = 0
        for ent in list(self.waiters):
            if k >= n:
                break
            if not ent[1]:
                ent[1] = True
                self.waiters.remove(ent)
                k += 1

    def notify_all(self):
        self.notify(1 << 30)

    notifyAll = notify_all

    def _state(self):
        return (self.cid, tuple(e[0].tid for e in self.waiters))


class ShimThreadHandle(object):
    """threading.Thread look-alike bound to a logical thread."""

    def __init__(self, sched, group=None, target=None, name=None, args=(),
                 kwargs=None, daemon=None):
        self.s = sched
        kwargs = kwargs or {}
        self._lt = sched._add_thread(name or 'T', lambda: target(*args, **kwargs),
                                     start=False)
        self.daemon = True

    @property
    def ident(self):
        return self._lt.ident

    @property
    def name(self):
        return self._lt.name

    def start(self):
        s = self.s
        s.point(('spawn', self._lt.tid))
        s._start_thread(self._lt)

    def is_alive(self):
        return self._lt.started and not self._lt.done

    def join(self, timeout=None):
        lt = self._lt
        self.s.point(('join', lt.tid), enabled=lambda: lt.done)


class ShimThreading(object):
    """Stand-in for the `threading` module as seen by the code under test."""

    def __init__(self, sched):
        self._s = sched
        self.LockType = ShimLock

    def Lock(self):
        return ShimLock(self._s)

    def RLock(self):
        return ShimRLock(self._s)

    def Condition(self, lock=None):
        return ShimCondition(self._s, lock)

    def current_thread(self):
        return self._s.current

    currentThread = current_thread

    def Thread(self, *a, **kw):
        return ShimThreadHandle(self._s, *a, **kw)

    def get_ident(self):
        return self._s.current.ident


class Execution(object):
    """What one run of the harness under one schedule produced."""

    def __init__(self):
        self.points = []     # list of (enabled_tids, running_tid_or_None,
                             #          running_enabled, chosen_index)
        self.choices = []
        self.verdict = None  # 'done' | 'deadlock' | 'stuck' | 'steps'
        self.blocked = None
        self.trace = []      # (tid, op) in execution order
        self.result = None   # harness specific


class Scheduler(object):
    """Runs one execution under a choice sequence `prefix`; beyond the
    prefix always takes choice 0 (continue the running thread if enabled,
    else the lowest enabled thread id)."""

    def __init__(self, prefix=(), max_steps=5000, priority_low=None):
        self.prefix = list(prefix)
        self.max_steps = max_steps
        self.threads = []
        self.back = _real.Semaphore(0)
        self.current = None
        self.aborting = False
        self.objs = []
        self.exe = Execution()
        self.step = 0
        # hook: called at every decision with the scheduler, may return an
        # opaque hashable state (used for pruning / state counting)
        self.state_fn = None
        # hook: thread ids that run only when nothing else is enabled
        self.low_priority = priority_low or (lambda lt: False)
        self.on_decision = None
        self.shim = ShimThreading(self)
        self._idmap = {}

    # --- object ids -------------------------------------------------------
    def _new_id(self, obj, name=None):
        self.objs.append(obj)
        return name or '%s%d' % (type(obj).__name__[4:], len(self.objs))

    def det_id(self, obj):
        """Deterministic replacement for id() on shim objects."""
        if obj not in self.objs:
            return id(obj)
        return 7000 + self.objs.index(obj)

    # --- threads ----------------------------------------------------------
    def _add_thread(self, name, fn, start=True):
        lt = _LT(self, len(self.threads), name, fn)
        self.threads.append(lt)
        if start:
            self._start_thread(lt)
        return lt

    def spawn(self, name, fn):
        return self._add_thread(name, fn, start=True)

    def _start_thread(self, lt):
        lt.started = True
        lt.pending = ('start', lt.tid)
        lt.enabled = lambda: True
        lt.blocked_kind = None
        lt.real = _real.Thread(target=lt._main, name='lt-' + lt.name)
        lt.real.daemon = True
        lt.real.start()

    # --- scheduling point (called by logical threads) ----------------------
    def point(self, op, enabled=None, blocked_kind=None):
        if self.aborting:
            raise Abort()
        me = self.current
        me.pending = op
        me.enabled = enabled or (lambda: True)
        me.blocked_kind = blocked_kind
        self.back.release()
        me.go.acquire()
        if self.aborting:
            raise Abort()
        me.nops += 1
        me.pending = None

    # --- main loop (called from the explorer's thread) ---------------------
    def run(self):
        exe = self.exe
        running = None
        while True:
            live = [t for t in self.threads if t.started and not t.done]
            if not live:
                exe.verdict = 'done'
                break
            en = [t for t in live if t.enabled()]
            if not en:
                exe.verdict = 'deadlock'
                exe.blocked = [(t.name, t.pending) for t in live]
                break
            hi = [t for t in en if not self.low_priority(t)]
            if hi:
                en = hi
            # canonical order: running thread first if still enabled
            en.sort(key=lambda t: (0 if t is running else 1, t.tid))
            run_en = running is not None and en[0] is running
            if run_en and running.pending and running.pending[0] == 'yield':
                # a voluntary yield: switching away is not a preemption
                run_en = False
            if self.on_decision is not None:
                stop = self.on_decision(self, en, running)
                if stop:
                    exe.verdict = stop
                    exe.blocked = [(t.name, t.pending) for t in live
                                   if not t.enabled()]
                    break
            i = len(exe.choices)
            if i < len(self.prefix):
                c = self.prefix[i]
                if c >= len(en):
                    self._abort()
                    raise HarnessError(
                        'replay diverged at decision %d: choice %d of %d'
                        % (i, c, len(en)))
            else:
                c = 0
            st = ((running.tid if running is not None else -1,
                   self.state_fn(self))
                  if self.state_fn and i >= len(self.prefix) - 1 else None)
            exe.points.append(([t.tid for t in en], run_en, st))
            exe.choices.append(c)
            t = en[c]
            exe.trace.append((t.tid, t.pending))
            self.step += 1
            if self.step > self.max_steps:
                exe.verdict = 'steps'
                break
            running = t
            self.current = t
            t.go.release()
            self.back.acquire()
            self.current = None
        self._abort()
        return exe

    def _abort(self):
        self.aborting = True
        for t in self.threads:
            if t.started and not t.done:
                t.go.release()
        for t in self.threads:
            if t.real is not None:
                t.real.join(5.0)
                if t.real.is_alive():
                    raise HarnessError('logical thread %s did not unwind'
                                       % t.name)

    def prim_state(self):
        out = []
        for o in self.objs:
            out.append(o._state())
        return tuple(out)


def preemptions(exe, upto=None):
    """Number of preemptions in exe.choices[:upto]."""
    n = 0
    for (en, run_en, st), c in list(zip(exe.points, exe.choices))[:upto]:
        if run_en and c != 0:
            n += 1
    return n


class Explorer(object):
    """Iterative preemption bounded DFS over choice sequences.

    make(prefix) -> Scheduler set up with threads spawned (not yet run).
    check(exe, sched) -> list of problems (each a (key, what) tuple).
    """

    def __init__(self, make, check, bound, prune=True, max_exec=None):
        self.make = make
        self.check = check
        self.bound = bound
        self.prune = prune
        self.max_exec = max_exec
        self.executions = 0
        self.transitions = 0
        self.states = set()
        self.visited = {}
        self.outcomes = {}
        self.problems = []       # (key, what, choices, bound)
        self.capped = False
        self.max_len = 0
        self.pruned = 0

    def run_one(self, prefix):
        s = self.make(prefix)
        exe = s.run()
        probs = self.check(exe, s)
        return exe, probs

    def explore(self, part=None):
        self._explore([], part)

    def _explore(self, prefix, part=None):
        # iterative (explicit stack) DFS; with part=(i, n) only the i-th
        # residue class of the root execution's alternatives is explored
        # (the root execution itself is judged by part 0 only), so that n
        # processes together cover exactly the same schedules.
        stack = [list(prefix)]
        first = True
        while stack:
            if self.max_exec and self.executions >= self.max_exec:
                self.capped = True
                return
            pre = stack.pop()
            exe, probs = self.run_one(pre)
            self.executions += 1
            self.transitions += len(exe.choices) - len(pre) if pre else len(exe.choices)
            self.max_len = max(self.max_len, len(exe.choices))
            for (en, run_en, st) in exe.points:
                if st is not None:
                    self.states.add(st)
            okey = (exe.verdict, tuple(k for k, w in probs),
                    repr(exe.result))
            self.outcomes[okey] = self.outcomes.get(okey, 0) + 1
            for k, w in probs:
                self.problems.append((k, w, list(exe.choices),
                                      preemptions(exe)))
            cost = 0
            children = []
            for i, ((en, run_en, st), c) in enumerate(zip(exe.points,
                                                            exe.choices)):
                if i >= len(pre):
                    remaining = self.bound - cost
                    skip = False
                    if self.prune and st is not None:
                        old = self.visited.get(st, -1)
                        if old >= remaining:
                            skip = True
                            self.pruned += 1
                        else:
                            self.visited[st] = remaining
                    if not skip:
                        for alt in range(1, len(en)):
                            ac = cost + (1 if run_en else 0)
                            if ac > self.bound:
                                continue
                            children.append(list(exe.choices[:i]) + [alt])
                    else:
                        # the suffix from this state was explored before with
                        # at least as much budget: nothing new below.
                        break
                if run_en and c != 0:
                    cost += 1
            if first and part is not None:
                children = children[part[0]::part[1]]
                if part[0] != 0:
                    self.executions -= 1
                    self.problems = [p for p in self.problems
                                     if p[2] != list(exe.choices)]
                    self.outcomes.clear()
            first = False
            stack.extend(reversed(children))
