"""Common driver for all checks: build, run, evidence, findings, exit code."""
import argparse
import importlib
import json
import os
import sys
import time
import traceback

VERIF = os.path.dirname(os.path.dirname(os.path.abspath(__file__)))

CHECKS = {
    'C01': 'checks.c01_nnps',
    'C02': 'checks.c02_equations',
    'C03': 'checks.c03_groups',
    'C04': 'checks.c04_integrator',
    'C05': 'checks.c05_config_independence',
    'C06': 'checks.c06_particle_array',
    'C07': 'checks.c07_domain',
    'C08': 'checks.c08_kernels',
    'C09': 'checks.c09_conservation',
    'C10': 'checks.c10_solver_loop',
    'C11': 'checks.c11_output',
    'C12': 'checks.c12_schemes',
    'C13': 'checks.c13_linalg',
    'C14': 'checks.c14_interpolator',
    'C15': 'checks.c15_riemann',
    'C16': 'checks.c16_inlet_outlet',
    'C17': 'checks.c17_reorder',
    'C18': 'checks.c18_controller',
    'C19': 'checks.c19_adaptive_dt',
    'C20': 'checks.c20_failfast',
}


# checks that compile run-time generated modules
COMPILED = {'C02', 'C03', 'C04', 'C05', 'C09', 'C12', 'C14', 'C16'}


class Ctx(object):
    def __init__(self, pid, tier, seed, work, home):
        self.property_id = pid
        self.tier = tier
        self.seed = seed
        self.work = work
        self.home = home
        self.thorough = tier == 'thorough'
        self.ncpu = int(os.environ.get('VERIF_NCPU', os.cpu_count() or 4))


class Violation(object):
    """key: narrow canonical signature of the failing input class.
    what: one line description.  replay: JSON-able dict that the check's
    replay() can re-execute without the explorer."""

    def __init__(self, key, what, replay):
        self.key = key
        self.what = what
        self.replay = replay


class Result(object):
    def __init__(self, level, coverage, assumptions=(), violations=()):
        self.level = level
        self.coverage = coverage
        self.assumptions = list(assumptions)
        self.violations = list(violations)


def load_findings():
    p = os.path.join(VERIF, 'known_findings.json')
    if not os.path.exists(p):
        return []
    with open(p) as f:
        return json.load(f).get('findings', [])


def _jsonable(o):
    try:
        import numpy as np
    except Exception:
        np = None
    if isinstance(o, dict):
        return {str(k): _jsonable(v) for k, v in o.items()}
    if isinstance(o, (list, tuple, set, frozenset)):
        return [_jsonable(v) for v in o]
    if np is not None:
        if isinstance(o, np.ndarray):
            return _jsonable(o.tolist())
        if isinstance(o, np.generic):
            return _jsonable(o.item())
    if isinstance(o, float):
        if o != o or o in (float('inf'), float('-inf')):
            return repr(o)
        return o
    if isinstance(o, (int, str, bool)) or o is None:
        return o
    if isinstance(o, bytes):
        return o.decode('latin1')
    return repr(o)


def write_evidence(ctx, res, wall, nviol):
    ev = {
        'property_id': ctx.property_id,
        'tier': ctx.tier,
        'seed': ctx.seed,
        'level': res.level,
        'coverage': _jsonable(res.coverage),
        'assumptions': res.assumptions,
        'wall_s': round(wall, 2),
        'violations': nviol,
    }
    d = os.path.join(VERIF, 'evidence')
    if os.environ.get('VERIF_NOEVIDENCE'):
        d = os.path.join(VERIF, 'replays', '_scratch_evidence')
    os.makedirs(d, exist_ok=True)
    p = os.path.join(d, ctx.property_id + '.json')
    tmp = p + '.tmp%d' % os.getpid()
    with open(tmp, 'w') as f:
        json.dump(ev, f, indent=1, sort_keys=True)
        f.write('\n')
    os.replace(tmp, p)
    return p


def _replay_in_child(mod, ctx, payload):
    """Runs the replay in a forked child: a replayed input that kills the
    interpreter (native crash) is a reproduced violation, not a lost run."""
    import traceback
    r, w = os.pipe()
    pid = os.fork()
    if pid == 0:
        code = 0
        try:
            os.close(r)
            out = mod.replay(ctx, payload)
            with os.fdopen(w, 'w') as f:
                json.dump(_jsonable(out), f)
        except BaseException:
            traceback.print_exc()
            code = 3
        finally:
            sys.stdout.flush()
            sys.stderr.flush()
            os._exit(code)
    os.close(w)
    with os.fdopen(r) as f:
        data = f.read()
    _, status = os.waitpid(pid, 0)
    if os.WIFSIGNALED(status):
        return dict(violates=True, crashed='the replayed input killed the '
                    'interpreter with signal %d' % os.WTERMSIG(status))
    if os.WEXITSTATUS(status) != 0 or not data:
        print('replay raised an exception (see above)')
        return None
    return json.loads(data)


def main(argv=None):
    ap = argparse.ArgumentParser()
    ap.add_argument('property')
    ap.add_argument('--tier', default=os.environ.get('VERIF_TIER', 'quick'),
                    choices=['quick', 'thorough'])
    ap.add_argument('--replay', default=None)
    a = ap.parse_args(argv)
    pid = a.property.upper()
    if pid not in CHECKS:
        print('unknown property %s' % pid)
        return 2
    try:
        seed = int(os.environ.get('VERIF_SEED', '0'))
    except ValueError:
        seed = 0
    os.environ.setdefault('PYTHONHASHSEED', '0')
    os.environ['VERIF_RUN_ID'] = str(os.getpid())
    sys.path.insert(0, VERIF)
    from vlib import build
    t0 = time.time()
    o3_pass = False
    if a.tier == 'quick' or a.replay:
        # generated modules: -O0 in the quick tier (see build._opt_suffix)
        os.environ.setdefault('VERIF_OPT', '-O0')
    elif pid in COMPILED and not os.environ.get('VERIF_OPT'):
        # thorough tier of a check that compiles generated code: the wide
        # enumeration at -O0, then the quick tier's enumeration once more
        # with compyle's own -O3 (what a user runs)
        os.environ['VERIF_OPT'] = '-O0'
        o3_pass = True
    work, home = build.activate()
    ctx = Ctx(pid, a.tier, seed, work, home)
    mod = importlib.import_module(CHECKS[pid])

    if a.replay:
        with open(a.replay) as f:
            obj = json.load(f)
        out = _replay_in_child(mod, ctx, obj['replay'])
        if out is None:
            return 2
        print(json.dumps(_jsonable(out), indent=1))
        if out.get('violates'):
            print('VIOLATION property=%s replay=%s' % (pid, a.replay))
            return 1
        print('replay: property held')
        return 0

    try:
        res = mod.run(ctx)
    except Exception:
        # An exception that escaped from the code under test (a frame inside
        # the built pysph tree or inside a generated extension module) while
        # an enumerated case was running is that case failing, not a harness
        # error: report it as a violation with the traceback as witness.
        # Anything else (a bug in /verif) stays an error of the check (rc 3).
        import re
        tb = traceback.format_exc()
        inside = (os.path.join(work, 'pysph') + os.sep in tb or
                  re.search(r'\bm_[0-9a-f]{32}\.pyx', tb))
        if not inside:
            raise
        last = tb.strip().splitlines()[-1][:200]
        frames = re.findall(r'File "[^"]*[/\\](pysph[/\\][^"]+)", line \d+, in (\w+)', tb)
        where = '%s:%s' % frames[-1] if frames else 'generated-code'
        v = Violation('exception-in-code-under-test:%s' % where,
                      'the exploration stopped because the code under test '
                      'raised: %s' % last, dict(traceback=tb[-4000:]))
        res = Result('other', dict(exhaustive=False, aborted=True,
                                   reason='exception in code under test',
                                   explanation='aborted run: ' + last),
                     ['the run was aborted by an exception raised inside '
                      'pysph; nothing beyond that point was explored'], [v])
    if o3_pass and not res.coverage.get('aborted'):
        import subprocess
        env = dict(os.environ, VERIF_OPT='-O3', VERIF_NOEVIDENCE='1')
        env.pop('VERIF_TIER', None)
        t1 = time.time()
        r = subprocess.run([sys.executable, os.path.abspath(__file__), pid,
                            '--tier', 'quick'], env=env,
                           stdout=subprocess.PIPE, stderr=subprocess.STDOUT)
        out = r.stdout.decode('utf8', 'replace')
        summary = [l for l in out.splitlines() if ' tier=quick ' in l]
        seen = set(v.key for v in res.violations)
        for line in out.splitlines():
            if line.startswith('VIOLATION property='):
                rp = line.split('replay=', 1)[1].strip()
                try:
                    with open(rp) as f:
                        obj = json.load(f)
                    key, what, rep = obj['key'], obj['what'], obj['replay']
                except Exception:  # noqa
                    key, what, rep = 'o3-pass:' + os.path.basename(rp), \
                        line, dict(replay_file=rp)
                if key not in seen:
                    seen.add(key)
                    res.violations.append(Violation(
                        key, '[-O3 pass] ' + what, rep))
        if r.returncode not in (0, 1):
            res.violations.append(Violation(
                'o3-pass:did-not-complete', 'the -O3 pass of the quick '
                'enumeration ended with status %d: %s' % (
                    r.returncode, out[-600:]), dict(output=out[-3000:])))
        res.coverage['o3_pass'] = dict(
            what='the quick tier enumeration repeated with generated '
                 'modules compiled at -O3',
            summary=summary[-1][:300] if summary else None,
            wall_s=round(time.time() - t1, 1))
    wall = time.time() - t0
    build.prune_code_cache(home)

    known = [f for f in load_findings()
             if f.get('property') == pid and f.get('status') == 'known']
    known_keys = {f['key']: f for f in known}
    new = []
    seen_known = {}
    for v in res.violations:
        if v.key in known_keys:
            seen_known.setdefault(v.key, v)
        else:
            new.append(v)
    write_evidence(ctx, res, wall, len(new))
    for k, v in sorted(seen_known.items()):
        print('KNOWN-FINDING: property=%s %s [%s]' % (pid, known_keys[k]['what'], k))
    rc = 0
    if new:
        rd = os.path.join(VERIF, 'replays', pid)
        os.makedirs(rd, exist_ok=True)
        seen = set()
        n = 0
        for v in new:
            if v.key in seen:
                continue
            seen.add(v.key)
            n += 1
            if n > 100:
                break
            safe = ''.join(c if c.isalnum() or c in '-_.' else '_'
                           for c in v.key)[:80]
            p = os.path.join(rd, '%s.json' % safe)
            with open(p, 'w') as f:
                json.dump({'property': pid, 'key': v.key, 'what': v.what,
                           'replay': _jsonable(v.replay)}, f, indent=1)
            print('VIOLATION property=%s replay=%s' % (pid, p))
            print('  what: %s' % v.what)
        rc = 1
    cov = res.coverage
    summ = {k: cov[k] for k in ('states', 'transitions', 'evaluations',
                                'distinct_nontrivial', 'programs',
                                'traces_validated_against_impl', 'exhaustive')
            if k in cov}
    print('%s tier=%s seed=%d %s wall=%.1fs violations=%d known=%d' % (
        pid, a.tier, seed, json.dumps(summ), wall, len(new), len(seen_known)))
    return rc


if __name__ == '__main__':
    try:
        sys.exit(main())
    except SystemExit:
        raise
    except BaseException:
        traceback.print_exc()
        sys.exit(3)
