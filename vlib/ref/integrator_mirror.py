"""Reference execution of Integrator.one_timestep 'literally': a mirror object
exposes initialize/stageN/compute_accelerations/update_domain/do_post_stage
and the integrator's own *Python* one_timestep is called on it unbound.
Stage calls apply the stepper's Python methods to every real particle;
accelerations are evaluated by the reference interpreter."""
import copy
import inspect

from vlib.ref.sph_interp import Prop, Interp


class Mirror(object):
    def __init__(self, integrator, arrays, eq_groups_list, kernel, nnps,
                 log):
        """eq_groups_list: one list of groups per acceleration evaluator."""
        self._integ = integrator
        self._arrays = {pa.name: pa for pa in arrays}
        self._nnps = nnps
        self._log = log
        self._interps = [Interp(arrays, g, kernel, nnps)
                         for g in eq_groups_list]
        self._user_steppers = integrator.steppers
        # the compiled integrator re-creates steppers from their __dict__
        self._steppers = {k: copy.deepcopy(v)
                          for k, v in integrator.steppers.items()}
        self._cb = None
        self.t = 0.0
        self.dt = 0.0
        self.orig_t = 0.0
        names = set()
        for st in self._steppers.values():
            for x in dir(st):
                if x.startswith('py_stage'):
                    names.add(x[3:])
                elif x == 'initialize' or (x.startswith('stage')):
                    names.add(x)
        for nm in names:
            setattr(self, nm, self._make_stage(nm))
        # anything else one_timestep may read from the integrator object
        for k, v in integrator.__dict__.items():
            if not hasattr(self, k) and not k.startswith('_'):
                try:
                    setattr(self, k, v)
                except Exception:  # noqa
                    pass

    def _make_stage(self, method):
        def stage():
            t, dt = self.t, self.dt
            for dest in sorted(self._steppers):
                dst = self._arrays[dest]
                ust = self._user_steppers[dest]
                if hasattr(ust, 'py_' + method):
                    getattr(ust, 'py_' + method)(dst, t, dt)
                st = self._steppers[dest]
                meth = getattr(st, method, None)
                if meth is None:
                    continue
                args = inspect.getfullargspec(meth).args[1:]
                env = dict(t=t, dt=dt)
                for nm in list(dst.properties) + list(dst.constants):
                    env['d_' + nm] = Prop(dst.get_carray(nm).get_npy_array(),
                                          'd_%s(%s)' % (nm, dest))
                for d_idx in range(dst.get_number_of_particles(True)):
                    env['d_idx'] = d_idx
                    meth(*[env[a] for a in args])
        return stage

    def set_post_stage_callback(self, cb):
        self._cb = cb

    def _finite(self):
        import numpy as np
        for pa in self._arrays.values():
            for p in ('x', 'y', 'z', 'h'):
                if not np.all(np.isfinite(pa.get(p,
                                                 only_real_particles=False))):
                    raise FloatingPointError(
                        'non-finite %s.%s reached the neighbour search' % (
                            pa.name, p))

    def compute_accelerations(self, index=0, update_nnps=True):
        if update_nnps:
            self._finite()
            self._nnps.update()
        self._interps[index].compute(self.t, self.dt)

    def update_domain(self):
        self._finite()
        self._nnps.update_domain()

    def do_post_stage(self, stage_dt, stage):
        self.t = self.orig_t + stage_dt
        if self._cb is not None:
            self._cb(self.t, self.dt, stage)

    def initial_acceleration(self, t, dt):
        self._interps[0].compute(t, dt)

    def step(self, t, dt):
        self.orig_t = t
        self.t = t
        self.dt = dt
        type(self._integ).one_timestep(self, t, dt)
