"""Reference interpreter of the documented SPH equation / group semantics
(docs/source/design/equations.rst and the Group docstring).

It executes the user's *Python* equation methods over real ParticleArrays in
the documented order, evaluating the precomputed pair symbols from an
independent table of their documented formulas and the kernel with the Python
kernel class.  It is the model against which the generated + compiled code
is compared (C02, C03, C04, C09)."""
import copy
import inspect
import math

import numpy as np

PRE_ORDER = ['HIJ', 'EPS', 'RHOIJ', 'RHOIJ1', 'XIJ', 'VIJ', 'R2IJ', 'RIJ',
             'WIJ', 'WDP', 'WI', 'WJ', 'WDASHI', 'WDASHJ', 'WDASHIJ', 'DWIJ',
             'DWI', 'DWJ', 'GHI', 'GHJ', 'GHIJ']
PRE_DEPS = {
    'HIJ': [], 'EPS': ['HIJ'], 'RHOIJ': [], 'RHOIJ1': ['RHOIJ'], 'XIJ': [],
    'VIJ': [], 'R2IJ': ['XIJ'], 'RIJ': ['R2IJ'],
    'WIJ': ['XIJ', 'RIJ', 'HIJ'], 'WDP': ['XIJ', 'HIJ'],
    'WI': ['XIJ', 'RIJ'], 'WJ': ['XIJ', 'RIJ'], 'WDASHI': ['RIJ'],
    'WDASHJ': ['RIJ'], 'WDASHIJ': ['RIJ', 'HIJ'],
    'DWIJ': ['XIJ', 'RIJ', 'HIJ'], 'DWI': ['XIJ', 'RIJ'],
    'DWJ': ['XIJ', 'RIJ'], 'GHI': ['XIJ', 'RIJ'], 'GHJ': ['XIJ', 'RIJ'],
    'GHIJ': ['XIJ', 'RIJ', 'HIJ'],
}
VECTORS = ('XIJ', 'VIJ', 'DWIJ', 'DWI', 'DWJ')
HOOKS = ('initialize', 'initialize_pair', 'loop_all', 'loop', 'post_loop')


class OutOfBounds(Exception):
    pass


class Prop(object):
    """Array view handed to equation methods: reads give Python numbers
    (C promotes float operands to double), writes convert like a C store,
    every access is bounds checked."""
    __slots__ = ('a', 'n', 'name')
    # True: reads return NumPy scalars, so that x/0.0 gives inf/nan as the
    # compiled C code does (Python floats raise ZeroDivisionError); the
    # arithmetic is IEEE double either way
    C_DIVISION = False

    def __init__(self, a, name):
        self.a = a
        self.n = len(a)
        self.name = name

    @staticmethod
    def _index(i):
        # an index computed with '/' (a declared int in the generated code):
        # accepted when integral, where C and Python agree
        if isinstance(i, float) or (hasattr(i, 'dtype') and
                                    i.dtype.kind == 'f'):
            if i != int(i):
                raise OutOfBounds('non-integral index %r' % (i,))
            return int(i)
        return i

    def __getitem__(self, i):
        i = self._index(i)
        if not 0 <= i < self.n:
            raise OutOfBounds('%s[%d] read, length %d' % (self.name, i,
                                                          self.n))
        if Prop.C_DIVISION and self.a.dtype.kind == 'f':
            return self.a[i]
        return self.a[i].item()

    def __setitem__(self, i, v):
        i = self._index(i)
        if not 0 <= i < self.n:
            raise OutOfBounds('%s[%d] written, length %d' % (self.name, i,
                                                             self.n))
        k = self.a.dtype.kind
        if k in 'iu':
            v = int(v)               # C truncates toward zero
            if k == 'u':
                v %= 1 << (8 * self.a.dtype.itemsize)
        self.a[i] = v

    def __len__(self):
        return self.n


def closure(symbols):
    need = set()
    todo = [s for s in symbols if s in PRE_DEPS]
    while todo:
        s = todo.pop()
        if s in need:
            continue
        need.add(s)
        todo += PRE_DEPS[s]
    return [s for s in PRE_ORDER if s in need]


def margs(meth):
    return inspect.getfullargspec(meth).args[1:]


class Interp(object):
    def __init__(self, arrays, groups, kernel, nnps):
        """arrays: list of ParticleArray; groups: list of Group objects (or
        equations); kernel: Python kernel instance; nnps: an NNPS object
        built on `arrays` (same class as the compiled side uses)."""
        from pysph.sph.equation import Group
        self.arrays = list(arrays)
        self.by_name = {pa.name: pa for pa in arrays}
        self.index = {pa.name: i for i, pa in enumerate(arrays)}
        if groups and not isinstance(groups[0], Group):
            groups = [Group(equations=list(groups))]
        self.groups = groups
        self.kernel = kernel
        self.nnps = nnps
        # the compiled evaluator re-creates every equation from its
        # __dict__: methods other than py_initialize run on that copy
        self.ccopy = {}
        for g in groups:
            for eq in self._all_eqs(g):
                self.ccopy[id(eq)] = copy.deepcopy(eq)
        self.scratch = {v: [0.0, 0.0, 0.0] for v in VECTORS}
        self.log = []
        self._prepare_modules()

    def _prepare_modules(self):
        """The environment equation methods are documented to run in: the C
        math functions and constants are available without import, and in a
        serial run parallel_reduce_array returns its argument."""
        import sys
        from pysph.base.reduce_array import dummy_reduce_array
        names = dict(M_PI=math.pi, M_E=math.e, M_PI_2=math.pi / 2,
                     M_PI_4=math.pi / 4, M_1_PI=1 / math.pi,
                     M_2_PI=2 / math.pi, M_SQRT2=math.sqrt(2.0),
                     M_SQRT1_2=math.sqrt(0.5), M_LN2=math.log(2.0),
                     M_LN10=math.log(10.0), M_LOG2E=1 / math.log(2.0),
                     M_LOG10E=1 / math.log(10.0),
                     M_2_SQRTPI=2 / math.sqrt(math.pi),
                     INFINITY=float('inf'), NAN=float('nan'))
        for f in ('sqrt', 'sin', 'cos', 'tan', 'exp', 'log', 'log10', 'pow',
                  'fabs', 'floor', 'ceil', 'atan', 'atan2', 'asin', 'acos',
                  'sinh', 'cosh', 'tanh', 'erf', 'fmod'):
            names[f] = getattr(math, f)
        mods = set()
        for g in self.groups:
            for eq in self._all_eqs(g):
                for klass in type(eq).__mro__:
                    mods.add(klass.__module__)
                if hasattr(eq, '_get_helpers_'):
                    for fn in eq._get_helpers_():
                        mods.add(getattr(fn, '__module__', None))
        for mn in mods:
            mod = sys.modules.get(mn)
            if mod is None or mn in ('builtins', 'pysph.sph.equation'):
                continue
            for k, v in names.items():
                if not hasattr(mod, k):
                    setattr(mod, k, v)
            if getattr(mod, 'parallel_reduce_array', None) is not None:
                mod.parallel_reduce_array = dummy_reduce_array

    # -- helpers ------------------------------------------------------------
    def _all_eqs(self, g):
        out = []
        for e in g.equations:
            if hasattr(e, 'equations'):
                out += self._all_eqs(e)
            else:
                out.append(e)
        return out

    def _props(self, pa, prefix):
        out = {}
        for nm in list(pa.properties) + list(pa.constants):
            out[prefix + nm] = Prop(pa.get_carray(nm).get_npy_array(),
                                    '%s%s(%s)' % (prefix, nm, pa.name))
        return out

    def _call(self, eq, hook, env):
        meth = getattr(eq, hook)
        args = []
        for a in margs(meth):
            if a not in env:
                raise KeyError('%s.%s needs %r which is not available' % (
                    type(eq).__name__, hook, a))
            args.append(env[a])
        return meth(*args)

    def _precompute(self, names, env):
        k = self.kernel
        d, s = env['d_idx'], env['s_idx']
        sc = self.scratch
        for nm in names:
            if nm == 'HIJ':
                env[nm] = 0.5 * (env['d_h'][d] + env['s_h'][s])
            elif nm == 'EPS':
                env[nm] = 0.01 * env['HIJ'] * env['HIJ']
            elif nm == 'RHOIJ':
                env[nm] = 0.5 * (env['d_rho'][d] + env['s_rho'][s])
            elif nm == 'RHOIJ1':
                env[nm] = 1.0 / env['RHOIJ']
            elif nm == 'XIJ':
                v = sc['XIJ']
                v[0] = env['d_x'][d] - env['s_x'][s]
                v[1] = env['d_y'][d] - env['s_y'][s]
                v[2] = env['d_z'][d] - env['s_z'][s]
                env[nm] = v
            elif nm == 'VIJ':
                v = sc['VIJ']
                v[0] = env['d_u'][d] - env['s_u'][s]
                v[1] = env['d_v'][d] - env['s_v'][s]
                v[2] = env['d_w'][d] - env['s_w'][s]
                env[nm] = v
            elif nm == 'R2IJ':
                x = env['XIJ']
                env[nm] = x[0] * x[0] + x[1] * x[1] + x[2] * x[2]
            elif nm == 'RIJ':
                env[nm] = math.sqrt(env['R2IJ'])
            elif nm == 'WIJ':
                env[nm] = k.kernel(env['XIJ'], env['RIJ'], env['HIJ'])
            elif nm == 'WDP':
                env[nm] = k.kernel(env['XIJ'], k.get_deltap() * env['HIJ'],
                                   env['HIJ'])
            elif nm == 'WI':
                env[nm] = k.kernel(env['XIJ'], env['RIJ'], env['d_h'][d])
            elif nm == 'WJ':
                env[nm] = k.kernel(env['XIJ'], env['RIJ'], env['s_h'][s])
            elif nm == 'WDASHI':
                env[nm] = k.dwdq(env['RIJ'], env['d_h'][d])
            elif nm == 'WDASHJ':
                env[nm] = k.dwdq(env['RIJ'], env['s_h'][s])
            elif nm == 'WDASHIJ':
                env[nm] = k.dwdq(env['RIJ'], env['HIJ'])
            elif nm == 'DWIJ':
                k.gradient(env['XIJ'], env['RIJ'], env['HIJ'], sc['DWIJ'])
                env[nm] = sc['DWIJ']
            elif nm == 'DWI':
                k.gradient(env['XIJ'], env['RIJ'], env['d_h'][d], sc['DWI'])
                env[nm] = sc['DWI']
            elif nm == 'DWJ':
                k.gradient(env['XIJ'], env['RIJ'], env['s_h'][s], sc['DWJ'])
                env[nm] = sc['DWJ']
            elif nm == 'GHI':
                env[nm] = k.gradient_h(env['XIJ'], env['RIJ'], env['d_h'][d])
            elif nm == 'GHJ':
                env[nm] = k.gradient_h(env['XIJ'], env['RIJ'], env['s_h'][s])
            elif nm == 'GHIJ':
                env[nm] = k.gradient_h(env['XIJ'], env['RIJ'], env['HIJ'])

    def _update_nnps(self):
        # binning non-finite positions is undefined behaviour in the
        # neighbour search (outside the properties): stop instead
        for pa in self.arrays:
            for p in ('x', 'y', 'z', 'h'):
                if not np.all(np.isfinite(pa.get(
                        p, only_real_particles=False))):
                    raise FloatingPointError(
                        'non-finite %s.%s reached the neighbour search' % (
                            pa.name, p))
        self.nnps.update_domain()
        self.nnps.update()

    # -- the documented evaluation order -------------------------------------
    def compute(self, t, dt):
        self.t, self.dt = t, dt
        for g in self.groups:
            if g.condition is not None and not g.condition(t, dt):
                continue
            if g.iterate:
                count = 1
                while True:
                    self._body(g)
                    conv = True
                    for eq in self._all_eqs(g):
                        # every equation is asked (no short circuit)
                        if not (self.ccopy[id(eq)].converged() > 0):
                            conv = False
                    if count >= g.min_iterations and (
                            conv or count == g.max_iterations):
                        break
                    count += 1
            else:
                self._body(g)

    def _body(self, g):
        if g.has_subgroups:
            if g.pre:
                g.pre()
            for sg in g.equations:
                if sg.condition is None or sg.condition(self.t, self.dt):
                    self._do_group(sg)
            if g.update_nnps:
                self._update_nnps()
            if g.post:
                g.post()
        else:
            self._do_group(g)

    def _range(self, g, dst):
        if isinstance(g.start_idx, str):
            start = int(dst.get_carray(g.start_idx).get_npy_array()[0])
        else:
            start = g.start_idx
        if g.stop_idx is None:
            stop = dst.get_number_of_particles(g.real)
        elif isinstance(g.stop_idx, str):
            stop = int(dst.get_carray(g.stop_idx).get_npy_array()[0])
        else:
            stop = g.stop_idx
        return range(start, stop)

    def _do_group(self, g):
        from cyarray.api import UIntArray
        t, dt = self.t, self.dt
        if g.pre:
            g.pre()
        dests = []
        for eq in g.equations:
            if eq.dest not in dests:
                dests.append(eq.dest)
        for dest in dests:
            dst = self.by_name[dest]
            eqs = [e for e in g.equations if e.dest == dest]
            cc = [self.ccopy[id(e)] for e in eqs]
            rng = self._range(g, dst)
            base = dict(t=t, dt=dt, SPH_KERNEL=self.kernel)
            base.update(self._props(dst, 'd_'))
            for e in eqs:
                if hasattr(e, 'py_initialize'):
                    e.py_initialize(dst, t, dt)
            if any(hasattr(c, 'initialize') for c in cc):
                for d_idx in rng:
                    env = dict(base, d_idx=d_idx)
                    for c in cc:
                        if hasattr(c, 'initialize'):
                            self._call(c, 'initialize', env)
            nosrc = [c for e, c in zip(eqs, cc) if e.no_source]
            if any(hasattr(c, 'loop') for c in nosrc):
                for d_idx in rng:
                    env = dict(base, d_idx=d_idx)
                    for c in nosrc:
                        if hasattr(c, 'loop'):
                            self._call(c, 'loop', env)
            sources = []
            for e in eqs:
                if not e.no_source:
                    for s in e.sources:
                        if s not in sources:
                            sources.append(s)
            for sname in sources:
                src = self.by_name[sname]
                se = [c for e, c in zip(eqs, cc)
                      if (not e.no_source) and sname in e.sources]
                senv = dict(base)
                senv.update(self._props(src, 's_'))
                if any(hasattr(c, 'initialize_pair') for c in se):
                    for d_idx in rng:
                        env = dict(senv, d_idx=d_idx)
                        for c in se:
                            if hasattr(c, 'initialize_pair'):
                                self._call(c, 'initialize_pair', env)
                has_loop = any(hasattr(c, 'loop') for c in se)
                has_all = any(hasattr(c, 'loop_all') for c in se)
                if not (has_loop or has_all):
                    continue
                pre = closure(a for c in se if hasattr(c, 'loop')
                              for a in margs(c.loop))
                self.nnps.set_context(self.index[sname], self.index[dest])
                nb = UIntArray()
                for d_idx in rng:
                    self.nnps.get_nearest_particles(
                        self.index[sname], self.index[dest], d_idx, nb)
                    nbrs = nb.get_npy_array()[:nb.length].tolist()
                    env = dict(senv, d_idx=d_idx, NBRS=nbrs,
                               N_NBRS=len(nbrs))
                    for c in se:
                        if hasattr(c, 'loop_all'):
                            self._call(c, 'loop_all', env)
                    if has_loop:
                        for s_idx in nbrs:
                            env['s_idx'] = s_idx
                            self._precompute(pre, env)
                            for c in se:
                                if hasattr(c, 'loop'):
                                    self._call(c, 'loop', env)
            if any(hasattr(c, 'post_loop') for c in cc):
                for d_idx in rng:
                    env = dict(base, d_idx=d_idx)
                    for c in cc:
                        if hasattr(c, 'post_loop'):
                            self._call(c, 'post_loop', env)
            for c in cc:
                if hasattr(c, 'reduce'):
                    c.reduce(dst, t, dt)
        if g.update_nnps:
            self._update_nnps()
        if g.post:
            g.post()
