"""Crash-tolerant deterministic process pool.

map_jobs(fn, jobs, ncpu) -> list of results in job order; a job whose worker
process died (segfault in native code, os._exit, sys.exit from compyle) yields
Crash(job, reason) instead of hanging the pool.
"""
import multiprocessing as mp
import os
import sys
import traceback


class Crash(object):
    def __init__(self, job, reason, pid=None):
        self.job = job
        self.reason = reason
        self.pid = pid

    def __repr__(self):
        return 'Crash(%r)' % (self.reason,)


def _worker(fn, conn_in, conn_out, init, initargs):
    try:
        if init is not None:
            init(*initargs)
        while True:
            msg = conn_in.recv()
            if msg is None:
                break
            i, job = msg
            try:
                # generated sources must depend on the job alone, not on
                # which jobs this worker happened to run before
                from vlib.build import reset_group_counter
                reset_group_counter()
                r = fn(job)
                conn_out.send((i, 'ok', r))
            except SystemExit as e:
                conn_out.send((i, 'crash', 'SystemExit(%r)' % (e.code,)))
            except BaseException:
                conn_out.send((i, 'exc', traceback.format_exc()))
    except (EOFError, KeyboardInterrupt):
        pass


class _W(object):
    def __init__(self, ctx, fn, init, initargs):
        self.pin, cin = ctx.Pipe(duplex=False)   # parent reads results
        cout, self.pout = ctx.Pipe(duplex=False)  # parent writes jobs
        self.p = ctx.Process(target=_worker,
                             args=(fn, cout, cin, init, initargs))
        self.p.daemon = True
        self.p.start()
        cin.close()
        cout.close()
        self.cur = None


def map_jobs(fn, jobs, ncpu=None, init=None, initargs=(), on_result=None,
             job_timeout=None):
    """Runs fn(job) for every job; order of results = order of jobs."""
    import time
    from multiprocessing.connection import wait
    jobs = list(jobs)
    n = len(jobs)
    res = [None] * n
    if n == 0:
        return res
    ncpu = max(1, min(ncpu or os.cpu_count() or 1, n))
    ctx = mp.get_context('fork')
    ws = [_W(ctx, fn, init, initargs) for _ in range(ncpu)]
    nxt = 0
    done = 0

    def feed(w):
        nonlocal nxt
        if nxt < n:
            w.cur = nxt
            w.t0 = time.time()
            w.pout.send((nxt, jobs[nxt]))
            nxt += 1
        else:
            w.cur = None

    for w in ws:
        feed(w)
    while done < n:
        busy = [w for w in ws if w.cur is not None]
        ready = wait([w.pin for w in busy] + [w.p.sentinel for w in busy],
                     timeout=5.0)
        for w in busy:
            if w.pin in ready or w.p.sentinel in ready:
                got = None
                try:
                    if w.pin.poll():
                        got = w.pin.recv()
                except (EOFError, OSError):
                    got = None
                if got is not None:
                    i, kind, r = got
                    if kind == 'ok':
                        res[i] = r
                    elif kind == 'crash':
                        res[i] = Crash(jobs[i], r)
                    else:
                        for x in ws:
                            x.p.terminate()
                        raise RuntimeError('worker raised:\n' + r)
                    done += 1
                    if on_result is not None:
                        on_result(i, res[i])
                    feed(w)
                elif not w.p.is_alive():
                    i = w.cur
                    res[i] = Crash(jobs[i], 'worker died, exitcode=%r'
                                   % (w.p.exitcode,), w.p.pid)
                    done += 1
                    if on_result is not None:
                        on_result(i, res[i])
                    k = ws.index(w)
                    ws[k] = _W(ctx, fn, init, initargs)
                    feed(ws[k])
            elif job_timeout and time.time() - w.t0 > job_timeout:
                i = w.cur
                w.p.terminate()
                w.p.join(2)
                res[i] = Crash(jobs[i], 'timeout after %ss' % job_timeout,
                               w.p.pid)
                done += 1
                if on_result is not None:
                    on_result(i, res[i])
                k = ws.index(w)
                ws[k] = _W(ctx, fn, init, initargs)
                feed(ws[k])
    for w in ws:
        try:
            w.pout.send(None)
        except Exception:
            pass
    for w in ws:
        w.p.join(2)
        if w.p.is_alive():
            w.p.terminate()
    return res
