"""Discovery and instantiation of every shipped Equation / IntegratorStep /
Integrator class, and an independent table of what the precomputed pair
symbols need.  Used by C02, C09, C12, C20."""
import importlib
import inspect
import pkgutil
import warnings

# documented meaning of the precomputed symbols -> array names they read
# (independent of pysph.sph.equation.precomputed_symbols)
PRE_NEEDS = {
    'HIJ': ({'h'}, {'h'}, []),            # (dest props, source props, deps)
    'EPS': (set(), set(), ['HIJ']),
    'RHOIJ': ({'rho'}, {'rho'}, []),
    'RHOIJ1': (set(), set(), ['RHOIJ']),
    'XIJ': ({'x', 'y', 'z'}, {'x', 'y', 'z'}, []),
    'VIJ': ({'u', 'v', 'w'}, {'u', 'v', 'w'}, []),
    'R2IJ': (set(), set(), ['XIJ']),
    'RIJ': (set(), set(), ['R2IJ']),
    'WIJ': (set(), set(), ['XIJ', 'RIJ', 'HIJ']),
    'WDP': (set(), set(), ['XIJ', 'HIJ']),
    'WI': ({'h'}, set(), ['XIJ', 'RIJ']),
    'WJ': (set(), {'h'}, ['XIJ', 'RIJ']),
    'WDASHI': ({'h'}, set(), ['RIJ']),
    'WDASHJ': (set(), {'h'}, ['RIJ']),
    'WDASHIJ': (set(), set(), ['RIJ', 'HIJ']),
    'DWIJ': (set(), set(), ['XIJ', 'RIJ', 'HIJ']),
    'DWI': ({'h'}, set(), ['XIJ', 'RIJ']),
    'DWJ': (set(), {'h'}, ['XIJ', 'RIJ']),
    'GHI': ({'h'}, set(), ['XIJ', 'RIJ']),
    'GHJ': (set(), {'h'}, ['XIJ', 'RIJ']),
    'GHIJ': (set(), set(), ['XIJ', 'RIJ', 'HIJ']),
}


def pre_closure(symbols):
    """(dest props, source props) needed by a set of precomputed symbols."""
    d, s = set(), set()
    todo = list(symbols)
    seen = set()
    while todo:
        x = todo.pop()
        if x in seen or x not in PRE_NEEDS:
            continue
        seen.add(x)
        dd, ss, deps = PRE_NEEDS[x]
        d |= dd
        s |= ss
        todo += deps
    return d, s


HOOKS = ('initialize', 'initialize_pair', 'loop', 'loop_all', 'post_loop',
         'reduce', 'py_initialize')
ARRAY_HOOKS = ('initialize', 'initialize_pair', 'loop', 'loop_all',
               'post_loop')


def method_args(obj, name):
    m = getattr(obj, name, None)
    if m is None:
        return None
    try:
        return inspect.getfullargspec(m).args[1:]
    except TypeError:
        return None


def equation_needs(eq):
    """Independent requirement function: (dest names, source names) an
    equation needs explicitly (d_*/s_* arguments of any hook) or implicitly
    (closure of the precomputed symbols named in loop)."""
    d, s = set(), set()
    for h in ARRAY_HOOKS:
        args = method_args(eq, h)
        if not args:
            continue
        for a in args:
            if a.startswith('d_') and a != 'd_idx':
                d.add(a[2:])
            elif a.startswith('s_') and a != 's_idx':
                s.add(a[2:])
    implicit_d, implicit_s = set(), set()
    args = method_args(eq, 'loop') or []
    pd, ps = pre_closure([a for a in args if a in PRE_NEEDS])
    implicit_d, implicit_s = pd - d, ps - s
    return d, s, implicit_d, implicit_s


# generic constructor values by parameter name
VALUES = dict(
    dim=2, rho0=1000.0, c0=10.0, gamma=7.0, nu=0.01, alpha=0.1, beta=0.2,
    h0=0.1, hdx=1.3, p0=100.0, pb=10.0, gx=0.0, gy=-9.81, gz=0.0, dx=0.1,
    b=1.0, eps=0.5, tol=1e-3, rho=1000.0, m0=1.0, k=1.5, eta=0.01, c=10.0,
    delta=0.1, mu=0.01, sigma=0.07, kernel_factor=2.0, n=4, U=1.0, V=1.0,
    W=1.0, umax=1.0, Vmax=1.0, r=0.5, fac=1.0, factor=1.0, cs=10.0, dt=1e-3,
    tdamp=1.0, omega=0.5, sign=1.0, ai=2.0, bi=3.0, a=1.0, nu0=0.01,
    rhomin=0.5, pmin=0.0, xmin=0.0, xmax=1.0, ymin=0.0, ymax=1.0, zmin=0.0,
    zmax=1.0, kn=1e4, en=0.8, Cn=0.1, debug=False, g1=0.2, g2=0.4,
    alpha1=1.0, alpha2=0.1, beta1=2.0, beta2=2.0, alphamax=2.0, alphamin=0.1,
    sigma1=0.1, sigma2=0.1, eta1=0.01, kappa=1.0, Re=100.0, uref=1.0,
    u0=1.0, v0=0.0, w0=0.0, ux=1.0, uy=0.0, uz=0.0, x0=0.0, y0=0.0, z0=0.0,
    t0=0.0, amplitude=1.0, freq=1.0, period=1.0, wij_sum=1.0, deltap=0.1,
    fkern=1.0, pref=1.0, xn=1.0, yn=0.0, zn=0.0, E=1e7, K=1e6, G=1e6,
    Je=1.0, Jf=1.0, Yo_1=1e6, Yo_2=1e6, wdeltap=1.0, R=0.5, Rmax=1.0,
    theta=0.5, phi0=0.0, min_h=0.01, max_h=1.0, hmin=0.01, hmax=1.0,
    rhow=1000.0, rhoa=1.0, rho_w=1000.0, dw0=0.1, hb=1.0, fric_coef=0.1,
    d=1.0, dw_max=1.0, h_max=1.0, pa_to_split=None, max_iterations=3,
    tolerance=1e-3, iterations=2, ndes=20, niter=20, rsolver=2,
    interpolation=1, monotonicity=0, interface_zero=True, hybrid=False,
    hybrid_factor=2.0, gsph_tol=1e-6, psi_factor=1.5, C=1.0, Cd=1.0,
    xsph_eps=0.5, cl=2, method='sph', formulation='mom', ndim=2,
    rot_ang=0.1, wall_time=0.0,
)


def discover(base, pkgs=('pysph.sph',)):
    """All concrete subclasses of `base` defined under the given packages."""
    out = {}
    with warnings.catch_warnings():
        warnings.simplefilter('ignore')
        for pk in pkgs:
            pkg = importlib.import_module(pk)
            for mi in pkgutil.walk_packages(pkg.__path__, pk + '.'):
                if '.tests' in mi.name or 'gpu' in mi.name.split('.')[-1]:
                    continue
                try:
                    mod = importlib.import_module(mi.name)
                except Exception:  # noqa (optional deps, mpi, ...)
                    continue
                for nm, obj in vars(mod).items():
                    if inspect.isclass(obj) and issubclass(obj, base) and \
                            obj is not base and obj.__module__ == mod.__name__:
                        out[obj.__module__ + '.' + nm] = obj
    return dict(sorted(out.items()))


def instantiate(cls, dest='dest', sources=('src',), extra=None):
    """Try to build an instance from the generic value table.  Returns
    (instance or None, reason)."""
    try:
        sig = inspect.signature(cls.__init__)
    except (TypeError, ValueError) as e:
        return None, 'no signature: %r' % e
    kw = {}
    for nm, p in list(sig.parameters.items())[1:]:
        if p.kind in (p.VAR_POSITIONAL, p.VAR_KEYWORD):
            continue
        if nm == 'dest':
            kw[nm] = dest
        elif nm == 'sources':
            kw[nm] = list(sources) if sources is not None else None
        elif extra and nm in extra:
            kw[nm] = extra[nm]
        elif p.default is not inspect.Parameter.empty:
            continue
        elif nm in VALUES:
            kw[nm] = VALUES[nm]
        else:
            return None, 'no value for constructor argument %r' % nm
    try:
        with warnings.catch_warnings():
            warnings.simplefilter('ignore')
            return cls(**kw), 'ok'
    except Exception as e:  # noqa
        return None, 'constructor raised %r' % (e,)
