"""Tiny Application subclasses used by C05 (configuration independence)."""
import numpy as np


def _ids(pa, start):
    n = pa.get_number_of_particles()
    pa.gid[:] = np.arange(start, start + n, dtype=np.uint32)
    if 'ident' not in pa.properties:
        pa.add_property('ident')
    pa.ident[:] = np.arange(start, start + n, dtype=float)
    # a strided property that says which particle each of its rows belongs
    # to: whatever permutes particles must move the rows with them
    if 'sid' not in pa.properties:
        pa.add_property('sid', stride=3)
    i = np.arange(start, start + n, dtype=float)
    pa.sid[:] = np.column_stack([i, 2.0 * i + 1.0, -i]).ravel()
    pa.add_output_arrays(['ident', 'gid'])
    return start + n


def make_app(problem):
    from pysph.solver.application import Application
    from pysph.base.utils import get_particle_array
    from pysph.base.kernels import CubicSpline, QuinticSpline
    from pysph.sph.scheme import WCSPHScheme, TVFScheme
    from pysph.base.nnps import DomainManager

    dx = 0.05
    hdx = 1.3
    rho0 = 1000.0
    c0 = 10.0

    class Drop(Application):
        """free surface: a circular patch with a straining velocity field"""
        def create_particles(self):
            x, y = np.mgrid[-0.3:0.3 + 1e-9:dx, -0.3:0.3 + 1e-9:dx]
            x, y = x.ravel(), y.ravel()
            keep = x * x + y * y < 0.3 ** 2
            x, y = x[keep], y[keep]
            # smoothing length varies across the patch (a smooth bump of
            # 1.8x): neighbours found through the *other* particle's radius
            h = hdx * dx * (1.0 + 0.8 * np.exp(-((x - 0.1) ** 2 +
                                                 (y + 0.05) ** 2) / 0.02))
            pa = get_particle_array(name='fluid', x=x, y=y, h=h,
                                    m=rho0 * dx * dx, rho=rho0,
                                    u=-2.0 * x, v=2.0 * y)
            self.scheme.setup_properties([pa])
            _ids(pa, 0)
            return [pa]

        def create_scheme(self):
            return WCSPHScheme(['fluid'], [], dim=2, rho0=rho0, c0=c0,
                               h0=hdx * dx, hdx=hdx, alpha=0.1)

        def configure_scheme(self):
            self.scheme.configure_solver(kernel=CubicSpline(dim=2),
                                         dt=2e-4, tf=6 * 2e-4, pfreq=1000)

    class Tank(Application):
        """wall bounded: a fluid block resting on / beside solid walls"""
        def create_particles(self):
            x, y = np.mgrid[0:0.4 + 1e-9:dx, 0:0.3 + 1e-9:dx]
            fl = get_particle_array(name='fluid', x=x.ravel(), y=y.ravel(),
                                    h=hdx * dx, m=rho0 * dx * dx, rho=rho0,
                                    u=0.3 * np.sin(9 * x.ravel()))
            xs, ys = np.mgrid[-3 * dx:0.6 + 1e-9:dx, -3 * dx:-dx + 1e-9:dx]
            xw, yw = np.mgrid[-3 * dx:-dx + 1e-9:dx, 0:0.4 + 1e-9:dx]
            sx = np.concatenate([xs.ravel(), xw.ravel()])
            sy = np.concatenate([ys.ravel(), yw.ravel()])
            so = get_particle_array(name='solid', x=sx, y=sy, h=hdx * dx,
                                    m=rho0 * dx * dx, rho=rho0)
            self.scheme.setup_properties([fl, so])
            n = _ids(fl, 0)
            _ids(so, n)
            return [fl, so]

        def create_scheme(self):
            return WCSPHScheme(['fluid'], ['solid'], dim=2, rho0=rho0, c0=c0,
                               h0=hdx * dx, hdx=hdx, gy=-9.81, alpha=0.1)

        def configure_scheme(self):
            self.scheme.configure_solver(kernel=CubicSpline(dim=2),
                                         dt=2e-4, tf=6 * 2e-4, pfreq=1000)

    class Periodic(Application):
        """doubly periodic box with two fluid arrays (Taylor-Green like)"""
        def create_domain(self):
            return DomainManager(xmin=0, xmax=0.5, ymin=0, ymax=0.5,
                                 periodic_in_x=True, periodic_in_y=True)

        def create_particles(self):
            x, y = np.mgrid[dx / 2:0.5:dx, dx / 2:0.5:dx]
            x, y = x.ravel(), y.ravel()
            u = -np.cos(4 * np.pi * x) * np.sin(4 * np.pi * y)
            v = np.sin(4 * np.pi * x) * np.cos(4 * np.pi * y)
            left = x < 0.25
            arrs = []
            start = 0
            for name, msk in (('f1', left), ('f2', ~left)):
                pa = get_particle_array(name=name, x=x[msk], y=y[msk],
                                        h=hdx * dx, m=rho0 * dx * dx,
                                        rho=rho0, u=u[msk], v=v[msk])
                arrs.append(pa)
            self.scheme.setup_properties(arrs)
            for pa in arrs:
                start = _ids(pa, start)
            return arrs

        def create_scheme(self):
            return TVFScheme(['f1', 'f2'], [], dim=2, rho0=rho0, c0=c0,
                             nu=0.01, p0=c0 * c0 * rho0, pb=c0 * c0 * rho0,
                             h0=hdx * dx)

        def configure_scheme(self):
            self.scheme.configure_solver(kernel=QuinticSpline(dim=2),
                                         dt=1e-4, tf=6 * 1e-4, pfreq=1000)

    class Collide(Application):
        """two fluid blocks in separate arrays, just out of kernel range at
        t=0, approaching: the (f1, f2) pair has no neighbours at first and
        interacts from the second step on"""
        def create_particles(self):
            h0 = hdx * dx
            gap = 2.0 * h0 + 1e-4          # CubicSpline radius_scale = 2
            x, y = np.mgrid[0:0.2 + 1e-9:dx, 0:0.3 + 1e-9:dx]
            x, y = x.ravel(), y.ravel()
            arrs = []
            for name, xo, uo in (('f1', -0.2 - gap / 2, 1.0),
                                 ('f2', gap / 2, -1.0)):
                pa = get_particle_array(name=name, x=x + xo, y=y, h=h0,
                                        m=rho0 * dx * dx, rho=rho0,
                                        u=uo * np.ones_like(x))
                arrs.append(pa)
            self.scheme.setup_properties(arrs)
            start = 0
            for pa in arrs:
                start = _ids(pa, start)
            return arrs

        def create_scheme(self):
            return WCSPHScheme(['f1', 'f2'], [], dim=2, rho0=rho0, c0=c0,
                               h0=hdx * dx, hdx=hdx, alpha=0.1)

        def configure_scheme(self):
            self.scheme.configure_solver(kernel=CubicSpline(dim=2),
                                         dt=2e-4, tf=6 * 2e-4, pfreq=1000)

    class Gtvf(Application):
        """a fluid block stepped by GTVFIntegrator, whose first evaluation
        of a step is made without refreshing the neighbour search"""
        def create_particles(self):
            x, y = np.mgrid[0:0.65 + 1e-9:dx, 0:0.65 + 1e-9:dx]
            x, y = x.ravel(), y.ravel()
            pa = get_particle_array(name='fluid', x=x, y=y, h=hdx * dx,
                                    m=rho0 * dx * dx, rho=rho0,
                                    u=0.5 * np.sin(7 * y), v=-0.5 * np.sin(5 * x))
            self.scheme.setup_properties([pa])
            _ids(pa, 0)
            return [pa]

        def create_scheme(self):
            from pysph.sph.wc.gtvf import GTVFScheme
            return GTVFScheme(['fluid'], [], dim=2, rho0=rho0, c0=c0,
                              nu=0.01, h0=hdx * dx, pref=c0 * c0 * rho0)

        def configure_scheme(self):
            self.scheme.configure_solver(kernel=CubicSpline(dim=2),
                                         dt=2e-4, tf=6 * 2e-4, pfreq=1000)

    return {'drop': Drop, 'tank': Tank, 'periodic': Periodic,
            'collide': Collide, 'gtvf': Gtvf}[problem]
