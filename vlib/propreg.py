"""Registry of property C types and strides harvested from the tree under
test (add_property(...) calls and {'name':..., 'stride':...} literals), used
to build particle arrays for arbitrary shipped equations."""
import ast
import os


def harvest(root):
    types = {}
    strides = {}
    for dp, dn, fn in os.walk(os.path.join(root, 'pysph')):
        dn[:] = [d for d in dn if d not in ('tests', '__pycache__')]
        for f in fn:
            if not f.endswith('.py'):
                continue
            try:
                tree = ast.parse(open(os.path.join(dp, f)).read())
            except SyntaxError:
                continue
            for node in ast.walk(tree):
                if isinstance(node, ast.Call):
                    fname = getattr(node.func, 'attr', None) or \
                        getattr(node.func, 'id', None)
                    if fname == 'add_property':
                        name = None
                        if node.args and isinstance(node.args[0],
                                                    ast.Constant):
                            name = node.args[0].value
                        kw = {k.arg: k.value for k in node.keywords}
                        if name is None and 'name' in kw and isinstance(
                                kw['name'], ast.Constant):
                            name = kw['name'].value
                        if not isinstance(name, str):
                            continue
                        if 'stride' in kw and isinstance(kw['stride'],
                                                         ast.Constant):
                            strides.setdefault(name, set()).add(
                                kw['stride'].value)
                        if 'type' in kw and isinstance(kw['type'],
                                                       ast.Constant):
                            types.setdefault(name, set()).add(
                                kw['type'].value)
                    elif fname == 'dict':
                        kw = {k.arg: k.value for k in node.keywords}
                        if 'name' in kw and isinstance(kw['name'],
                                                       ast.Constant):
                            name = kw['name'].value
                            if 'stride' in kw and isinstance(
                                    kw['stride'], ast.Constant):
                                strides.setdefault(name, set()).add(
                                    kw['stride'].value)
                            if 'type' in kw and isinstance(kw['type'],
                                                           ast.Constant):
                                types.setdefault(name, set()).add(
                                    kw['type'].value)
                elif isinstance(node, ast.Dict):
                    d = {}
                    for k, v in zip(node.keys, node.values):
                        if isinstance(k, ast.Constant) and isinstance(
                                v, ast.Constant):
                            d[k.value] = v.value
                    if isinstance(d.get('name'), str):
                        if 'stride' in d:
                            strides.setdefault(d['name'], set()).add(
                                d['stride'])
                        if 'type' in d:
                            types.setdefault(d['name'], set()).add(d['type'])
    return types, strides


def index_stride(method_src, argname):
    """Largest multiplier k seen in expressions  argname[k*idx + ...]  in the
    source of a method (a cross-check of the registry)."""
    import re
    best = 1
    for m in re.finditer(r'%s\[\s*(\d+)\s*\*' % re.escape(argname),
                         method_src):
        best = max(best, int(m.group(1)))
    for m in re.finditer(r'%s\[[^\]]*\*\s*(\d+)\s*[\]+]' % re.escape(argname),
                         method_src):
        best = max(best, int(m.group(1)))
    return best
