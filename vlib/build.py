"""Shared builder: mirrors $VERIF_REPO into a work tree outside /repo and /verif,
builds the Cython extensions in place when build-relevant sources changed, and
prepares a code cache (HOME) for run-time generated modules keyed by the hash
of the .pxd/.h/.pyx files the generated code is compiled against.

See DESIGN.md section 2.1.
"""
import fcntl
import glob
import hashlib
import os
import shutil
import subprocess
import sys
import time

REPO = os.environ.get('VERIF_REPO', '/repo')
CACHE = os.environ.get('VERIF_CACHE', '/var/tmp/pysph-verif')
PY = '/venv/bin/python'
VERIF = os.path.dirname(os.path.dirname(os.path.abspath(__file__)))

BUILD_EXT = ('.pyx', '.pxd', '.h', '.mako', '.pxi')


def _repo_key():
    return hashlib.md5(os.path.abspath(REPO).encode()).hexdigest()[:8]


def work_dir():
    return os.path.join(CACHE, 'work-' + _repo_key())


def _hash_files(root, pred):
    h = hashlib.sha1()
    for dp, dn, fn in os.walk(root):
        dn[:] = sorted(d for d in dn if d not in ('.git', 'build', 'docs',
                                                  '__pycache__'))
        for f in sorted(fn):
            p = os.path.join(dp, f)
            if pred(p):
                h.update(os.path.relpath(p, root).encode())
                with open(p, 'rb') as fp:
                    h.update(hashlib.sha1(fp.read()).digest())
    return h.hexdigest()


def build_hash(root):
    def pred(p):
        if p.endswith(BUILD_EXT):
            # c_kernels.pyx.mako etc. count; .mako templates of run-time
            # generated code do not influence the static extensions but
            # hashing them is harmless (only costs a rebuild).
            return p.endswith(('.pyx', '.pxd', '.h', '.pxi')) or \
                p.endswith('.pyx.mako')
        return os.path.basename(p) in ('setup.py',)
    return _hash_files(root, pred)


def iface_hash(root):
    """Hash of everything run-time generated modules are compiled against."""
    return _hash_files(
        os.path.join(root, 'pysph'),
        lambda p: p.endswith(('.pxd', '.h', '.pyx')))[:16]


def _log(msg):
    if os.environ.get('VERIF_VERBOSE'):
        sys.stderr.write('[build] %s\n' % msg)
        sys.stderr.flush()


def _opt_suffix():
    """Run-time generated modules are compiled with compyle's own -O3 in the
    thorough tier and with VERIF_OPT (set to -O0 by the runner) in the quick
    tier: compiling is 5-8x faster and the arithmetic is the same IEEE
    double arithmetic.  The two sets of modules live in separate caches
    (compyle names a module after its source alone)."""
    o = os.environ.get('VERIF_OPT', '')
    return o if o and o != '-O3' else ''


def _prune(keep):
    """Delete old work trees / code caches beyond the two most recent."""
    try:
        ents = [os.path.join(CACHE, e) for e in os.listdir(CACHE)]
    except OSError:
        return
    for prefix in ('work-', 'home-'):
        ds = sorted((e for e in ents
                     if os.path.basename(e).startswith(prefix)
                     and os.path.isdir(e)),
                    key=lambda p: os.stat(p).st_mtime, reverse=True)
        for d in ds[(3 if prefix == 'work-' else 5):]:
            if d not in keep:
                shutil.rmtree(d, ignore_errors=True)


def prune_code_cache(home, min_age=1800):
    """The code cache keeps, next to every generated extension module, its
    C++ source and a distutils build tree with object files and a second
    copy of the module (3-4x the size of what is needed to reload it).
    Remove those that are older than `min_age` seconds (a build in progress
    in another process still needs its own)."""
    now = time.time()
    for root in glob.glob(os.path.join(home, '.pysph', 'source', '*')):
        for path in glob.glob(os.path.join(root, 'm_*.cpp')):
            try:
                if now - os.stat(path).st_mtime > min_age:
                    os.remove(path)
            except OSError:
                pass
        for dp, dn, fn in os.walk(os.path.join(root, 'build')):
            for f in fn:
                sub = os.path.join(dp, f)
                try:
                    if now - os.stat(sub).st_mtime > min_age:
                        os.remove(sub)
                except OSError:
                    pass


def ensure_built(verbose=False):
    """Returns (work_tree, home_dir).  Safe to call concurrently."""
    os.makedirs(CACHE, exist_ok=True)
    wd = work_dir()
    lock = open(os.path.join(CACHE, 'build-%s.lock' % _repo_key()), 'w')
    fcntl.flock(lock, fcntl.LOCK_EX)
    try:
        t0 = time.time()
        os.makedirs(wd, exist_ok=True)
        if os.environ.get('VERIF_NOSYNC') and os.path.exists(
                os.path.join(wd, '.verif_build_stamp')):
            # development aid: use the work tree as it is (never set by
            # registered commands, which must rebuild from /repo)
            ih = open(os.path.join(wd, '.verif_build_stamp')).read().strip()
            home = os.path.join(CACHE, 'home-' + ih[:16] + _opt_suffix())
            os.makedirs(home, exist_ok=True)
            return wd, home
        cmd = ['rsync', '-rc', '--delete',
               '--exclude=/.git', '--exclude=/build', '--exclude=/docs',
               '--exclude=*.so', '--exclude=*.c', '--exclude=*.cpp',
               '--exclude=__pycache__', '--exclude=*.pyc',
               '--exclude=/.verif_build_stamp', '--exclude=/PySPH.egg-info',
               '--exclude=/.verif_build.log',
               REPO.rstrip('/') + '/', wd + '/']
        subprocess.run(cmd, check=True)
        stamp = os.path.join(wd, '.verif_build_stamp')
        want = build_hash(wd)
        have = None
        if os.path.exists(stamp):
            have = open(stamp).read().strip()
        if have != want:
            _log('building extensions in %s' % wd)
            env = dict(os.environ)
            env['HOME'] = os.path.join(CACHE, 'home-build')
            os.makedirs(env['HOME'], exist_ok=True)
            env.pop('PYTHONPATH', None)
            env['USE_ZOLTAN'] = '0'
            logp = os.path.join(wd, '.verif_build.log')
            with open(logp, 'w') as lf:
                r = subprocess.run(
                    [PY, 'setup.py', 'build_ext', '--inplace', '-j16'],
                    cwd=wd, env=env, stdout=lf, stderr=subprocess.STDOUT)
            if r.returncode != 0:
                tail = open(logp).read()[-4000:]
                raise RuntimeError('build of %s failed:\n%s' % (wd, tail))
            with open(stamp, 'w') as f:
                f.write(want)
        ih = want[:16]
        home = os.path.join(CACHE, 'home-' + ih + _opt_suffix())
        os.makedirs(home, exist_ok=True)
        os.utime(home, None)
        os.utime(wd, None)
        _prune({wd, home})
        _log('ready in %.1fs (%s)' % (time.time() - t0, wd))
        return wd, home
    finally:
        fcntl.flock(lock, fcntl.LOCK_UN)
        lock.close()


def activate():
    """Build if needed and make the current process import the work tree."""
    wd, home = ensure_built()
    os.environ['HOME'] = home
    os.environ.setdefault('PYTHONHASHSEED', '0')
    if sys.path[0] != wd:
        sys.path.insert(0, wd)
    for m in list(sys.modules):
        if m == 'pysph' or m.startswith('pysph.'):
            raise RuntimeError('pysph imported before build.activate()')
    _patch_compyle_lock()
    return wd, home


def _patch_compyle_lock():
    """compyle's per-module build lock is a directory that (a) is given up
    on after 90 s, after which two processes build the same module, and (b)
    stays behind when a process dies while building, stalling every later
    build of that module.  The harness runs 16 workers that compile
    identical sources and kills workers on time-outs, so the lock is
    replaced (in the harness processes only) by an flock on a side file:
    it is released by the kernel when its holder exits."""
    try:
        from compyle import ext_module
    except Exception:
        return
    if getattr(ext_module.ExtModule._lock, '_verif_patched', False):
        return
    import contextlib
    import fcntl

    @contextlib.contextmanager
    def _lock(self, timeout=None):
        fd = os.open(self.lock_path + 'f', os.O_CREAT | os.O_RDWR, 0o644)
        try:
            fcntl.flock(fd, fcntl.LOCK_EX)
            yield
        finally:
            try:
                fcntl.flock(fd, fcntl.LOCK_UN)
            finally:
                os.close(fd)
    _lock._verif_patched = True
    ext_module.ExtModule._lock = _lock
    orig_wb = ext_module.ExtModule.write_and_build

    def write_and_build(self):
        # another process may have finished the build while we waited
        if not os.path.exists(self.ext_path):
            with self._lock():
                if not os.path.exists(self.ext_path):
                    self._write_source(self.src_path)
                    # a compiler killed by the kernel (16 workers compiling
                    # very large modules at once can exhaust memory) is not
                    # a verdict about the generated code: try again, alone
                    # under the lock, before giving the failure to the check
                    for attempt in (0, 1, 2):
                        try:
                            self.build()
                            break
                        except SystemExit:
                            if attempt == 2:
                                raise
                            time.sleep(30 * (attempt + 1))
    write_and_build._verif_patched = True
    ext_module.ExtModule.write_and_build = write_and_build

    orig_extra = ext_module.ExtModule._get_extra_args

    def _get_extra_args(self):
        ec, el = orig_extra(self)
        opt = _opt_suffix()
        if opt:
            ec = [opt if a == '-O3' else a for a in ec]
        return ec, el
    ext_module.ExtModule._get_extra_args = _get_extra_args

    # the built module is copied into the cache with shutil.copy while other
    # processes test for its existence without the lock: make it atomic
    import shutil as _sh

    class _AtomicShutil(object):
        def __getattr__(self, name):
            return getattr(_sh, name)

        @staticmethod
        def copy(src, dst):
            tmp = '%s.tmp%d' % (dst, os.getpid())
            _sh.copy(src, tmp)
            os.replace(tmp, dst)
            return dst
    ext_module.shutil = _AtomicShutil()


if __name__ == '__main__':
    os.environ['VERIF_VERBOSE'] = '1'
    t = time.time()
    print(ensure_built())
    print('%.1fs' % (time.time() - t))


def reset_group_counter():
    """pysph names every Group 'Group_<n>' from a process-wide counter and the
    name is written into the generated source (profiling labels), so the
    same problem built twice in one process gets two different source
    hashes and is compiled twice.  The harness owns this piece of global
    state: resetting it before a case is built makes the generated source a
    function of the case alone."""
    import pysph.sph.equation as E
    E.group_counter = E._counter()
