#!/usr/bin/env python3-vt
import json, jsonschema, sys, glob
sch = json.load(open('/root/.vp/EVIDENCE.schema.json'))
bad = 0
for p in sorted(glob.glob('/verif/evidence/*.json')):
    try:
        jsonschema.validate(json.load(open(p)), sch); print('ok  ', p)
    except Exception as e:
        bad += 1; print('BAD ', p, str(e)[:300])
sys.exit(1 if bad else 0)
