import json
props={json.loads(l)['id']:json.loads(l) for l in open('/verif/properties.jsonl')}
T=open('/verif/tools/seed_prompt.txt').read()
for pid,p in props.items():
    a=p['anchors']
    s=(T.replace('{id}',pid).replace('{title}',p['title']).replace('{statement}',p['statement'])
        .replace('{qtext}',p['quantifier']['text']).replace('{files}',', '.join(a['files']))
        .replace('{mech}','; '.join('%s (%s)'%(m['name'],m['where']) for m in a['mechanism'])))
    open('/tmp/seeded-out/prompt-%s.txt'%pid,'w').write(s)
