"""Sixth-wave prompts: two more seeded changes per property (suffixes k, l),
told which mechanisms all earlier rounds used."""
import glob, json, os, sys
props = {json.loads(l)['id']: json.loads(l) for l in open('/verif/properties.jsonl')}
T = open('/verif/tools/seed_prompt.txt').read()
for pid in sys.argv[1:]:
    p = props[pid]
    a = p['anchors']
    s = (T.replace('{id}', pid).replace('{title}', p['title']).replace('{statement}', p['statement'])
         .replace('{qtext}', p['quantifier']['text']).replace('{files}', ', '.join(a['files']))
         .replace('{mech}', '; '.join('%s (%s)' % (m['name'], m['where']) for m in a['mechanism'])))
    s = s.replace('for each change k in (a, b)', 'for each change k in (k, l)')
    s = s.replace('/tmp/seeded-out/%sa/ and /tmp/seeded-out/%sb/' % (pid, pid),
                  '/tmp/seeded-out/%sk/ and /tmp/seeded-out/%sl/' % (pid, pid))
    s = s.replace('revert (`git -C /tmp/wt-%s checkout -- .`) between a and b' % pid,
                  'revert (`git -C /tmp/wt-%s checkout -- .`) between k and l' % pid)
    s = s.replace('/tmp/wt-%s' % pid, '/tmp/wt6-%s' % pid)
    used = []
    for k in 'abcdefghij':
        for mp, key in (('/verif/seeded/%s%s/meta.json' % (pid, k), 'breaks'),
                        ('/tmp/seeded-out/%s%s/meta.json' % (pid, k), 'summary')):
            if os.path.exists(mp):
                m = json.load(open(mp))
                used.append('- %s (files: %s)' % (m.get(key, '')[:500], ', '.join(m.get('files', []))))
                break
    s += ('\n\nALREADY USED in earlier rounds (do NOT repeat these or close variants; pick different '
          'mechanisms, files or code paths of the property - look for parts of the statement and of the '
          'quantifier that none of these touch; never use `git stash`):\n' + '\n'.join(used) + '\n')
    open('/tmp/seeded-out/prompt6-%s.txt' % pid, 'w').write(s)
    print(pid, len(s), len(used))
