#!/bin/sh
# usage: tools/run_all.sh [tier] [ids...]  - runs the registered checks one after the other in /verif (writes evidence)
tier="${1:-quick}"; shift
ids="$*"; [ -z "$ids" ] && ids="C08 C11 C19 C10 C07 C06 C15 C13 C20 C16 C17 C14 C18 C09 C04 C01 C03 C05 C02 C12"
cd /verif
for id in $ids; do
  s=$(date +%s)
  bin/check $id --tier $tier > /tmp/run_all_$id.log 2>&1; rc=$?
  e=$(date +%s)
  echo "$id rc=$rc $((e-s))s $(grep -E 'tier=' /tmp/run_all_$id.log | cut -c1-200)"
  grep -E "^VIOLATION" /tmp/run_all_$id.log | head -5
done
