#!/bin/bash
# usage: tools/confirm_seed.sh <seed-dir>  -> prints CONFIRMED / REJECTED; writes <seed-dir>/confirm.log
d="$(cd "$1" && pwd)"; name=$(basename "$d")
wt=/tmp/cs-$name
log="$d/confirm.log"; : > "$log"
SHA=$(git -C /repo rev-parse HEAD)
WORK=/var/tmp/pysph-confirm/$SHA
if [ ! -f $WORK/.built ]; then
  rm -rf /var/tmp/pysph-confirm; mkdir -p $WORK
  git -C /repo archive HEAD | tar -x -C $WORK
  ( cd $WORK && HOME=$WORK/home USE_ZOLTAN=0 /venv/bin/python setup.py build_ext --inplace -j16 >build.log 2>&1 ) && touch $WORK/.built || { echo "pristine build failed"; exit 1; }
fi
git -C /repo worktree remove --force $wt >/dev/null 2>&1; rm -rf $wt
git -C /repo worktree add --detach $wt HEAD >>"$log" 2>&1 || { echo "REJECTED $name: worktree"; exit 1; }
cleanup() { git -C /repo worktree remove --force $wt >/dev/null 2>&1; rm -rf $wt; }
trap cleanup EXIT
( cd $WORK && find . \( -name '*.so' -o -name '*.cpp' -o -name '*.c' \) -not -path './build/*' | rsync -a --files-from=- . $wt/ ) >>"$log" 2>&1
find $wt \( -name '*.so' -o -name '*.cpp' -o -name '*.c' \) | xargs touch
export HOME=$wt/home; mkdir -p $HOME
cd $wt
build() { USE_ZOLTAN=0 /venv/bin/python setup.py build_ext --inplace -j16 >>"$log" 2>&1; }
# sanity: demo passes on clean tree
/venv/bin/python "$d/demo.py" >>"$log" 2>&1; rc0=$?
git apply "$d/patch.diff" >>"$log" 2>&1 || { echo "REJECTED $name: patch does not apply"; exit 1; }
if git diff --name-only | grep -qE '\.(pyx|pxd|h|pxi)$|\.pyx\.mako$'; then build || { echo "REJECTED $name: build failed"; exit 1; }; fi
/venv/bin/python -m pytest -q -p no:cacheprovider --timeout=900 pysph/base/tests/test_reduce_array.py pysph/examples/tests/test_riemann_solver.py pysph/sph/tests/test_equations.py pysph/sph/tests/test_linalg.py pysph/sph/tests/test_riemann_solver.py >"$d/tests.log" 2>&1
tp=$(grep -oE '[0-9]+ passed' "$d/tests.log" | tail -1)
tf=$(grep -oE '[0-9]+ (failed|error)' "$d/tests.log" | tail -1)
/venv/bin/python "$d/demo.py" >>"$log" 2>&1; rc1=$?
echo "demo clean rc=$rc0, patched rc=$rc1, tests: $tp $tf" | tee -a "$log"
if [ "$rc0" = 0 ] && [ "$rc1" = 1 ] && [ "$tp" = "55 passed" ] && [ -z "$tf" ]; then echo "CONFIRMED $name"; else echo "REJECTED $name"; exit 1; fi
