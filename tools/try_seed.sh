#!/bin/sh
# usage: tools/try_seed.sh <seed-dir> <ID> [tier]
# Applies the seeded patch to /repo, runs the check in a scratch cache
# (work tree copied, code cache hard-linked from the main cache so that
# unchanged generated modules are not recompiled), reverts /repo.
set -u
d="$1"; id="$2"; tier="${3:-quick}"
MAIN=/var/tmp/pysph-verif
SEED=/var/tmp/pysph-verif-seed
cd /repo || exit 2
if ! git diff --quiet; then echo "/repo dirty"; exit 2; fi
git apply -v "$d/patch.diff" 2>&1 | grep -i "offset" && echo "WARNING: hunk applied with offset - check it landed in the intended function"; git diff --quiet && { echo "patch does not apply"; exit 2; }
rm -rf "$SEED"; mkdir -p "$SEED"
for w in "$MAIN"/work-*; do [ -d "$w" ] && cp -a "$w" "$SEED/"; done
h=$(ls -dt "$MAIN"/home-[0-9a-f]* 2>/dev/null | head -1)
[ -n "$h" ] && cp -al "$h" "$SEED/"
cd /verif
VERIF_CACHE=$SEED VERIF_NOEVIDENCE=1 bin/check "$id" --tier "$tier" > /tmp/try_seed_$$.log 2>&1
rc=$?
cd /repo && git checkout -- .
grep -E "^VIOLATION|^KNOWN|tier=" /tmp/try_seed_$$.log | head -8
echo "rc=$rc (log /tmp/try_seed_$$.log)"
rm -rf "$SEED"
exit $rc
