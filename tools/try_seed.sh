#!/bin/sh
# usage: tools/try_seed.sh <seed-dir> <ID> [tier]   -- applies patch to /repo, runs check, reverts
set -u
d="$1"; id="$2"; tier="${3:-quick}"
cd /repo || exit 2
if ! git diff --quiet; then echo "/repo dirty"; exit 2; fi
git apply -v "$d/patch.diff" 2>&1 | grep -i "offset" && echo "WARNING: hunk applied with offset - check it landed in the intended function"; git diff --quiet && { echo "patch does not apply"; exit 2; }
cd /verif
VERIF_CACHE=/var/tmp/pysph-verif-seed VERIF_NOEVIDENCE=1 bin/check "$id" --tier "$tier" > /tmp/try_seed_$$.log 2>&1
rc=$?
cd /repo && git checkout -- . 
grep -E "^VIOLATION|^KNOWN|tier=" /tmp/try_seed_$$.log | head -8
echo "rc=$rc (log /tmp/try_seed_$$.log)"
exit $rc
