#!/bin/sh
# usage: tools/try_seed.sh <seed-dir> <ID> [tier]
# Applies the seeded patch to a scratch copy of /repo's HEAD (never to /repo
# itself), and runs the check against that copy (VERIF_REPO) in a scratch
# cache: work tree copied from the main cache, code cache hard-linked so
# that unchanged generated modules are not recompiled.  Everything scratch
# is removed afterwards.
set -u
d="$1"; id="$2"; tier="${3:-quick}"
MAIN=/var/tmp/pysph-verif
tag=$(basename "$d")-$id
SEED=/var/tmp/pysph-verif-seed-$tag
SRC=/var/tmp/pysph-seed-repo-$tag
rm -rf "$SRC" "$SEED"; mkdir -p "$SRC" "$SEED"
git -C /repo archive HEAD | tar -x -C "$SRC" || exit 2
( cd "$SRC" && git init -q . && git apply -v "$d/patch.diff" 2>&1 | grep -i "offset" && echo "WARNING: hunk applied with offset - check it landed in the intended function" )
( cd "$SRC" && git apply --check -R "$d/patch.diff" 2>/dev/null ) || { echo "patch does not apply"; rm -rf "$SRC" "$SEED"; exit 2; }
rm -rf "$SRC/.git"
key() { /venv/bin/python -c "import hashlib,os,sys;print(hashlib.md5(os.path.abspath(sys.argv[1]).encode()).hexdigest()[:8])" "$1"; }
mk=$(key /repo); sk=$(key "$SRC")
[ -d "$MAIN/work-$mk" ] && cp -a "$MAIN/work-$mk" "$SEED/work-$sk"
for h in $(ls -dt "$MAIN"/home-[0-9a-f]* 2>/dev/null | head -2); do cp -al "$h" "$SEED/"; done
cd /verif
VERIF_REPO=$SRC VERIF_CACHE=$SEED VERIF_NOEVIDENCE=1 bin/check "$id" --tier "$tier" > /tmp/try_seed_$$.log 2>&1
rc=$?
grep -E "^VIOLATION|^KNOWN|tier=" /tmp/try_seed_$$.log | head -12
echo "rc=$rc (log /tmp/try_seed_$$.log)"
rm -rf "$SEED" "$SRC"
exit $rc
