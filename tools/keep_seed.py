#!/usr/bin/env python3
"""usage: keep_seed.py <name> <detected: yes|no|partial> <note...>  (from /tmp/seeded-out/<name>)"""
import json, os, shutil, sys
name, det = sys.argv[1], sys.argv[2]
note = ' '.join(sys.argv[3:])
src = '/tmp/seeded-out/' + name
dst = '/verif/seeded/' + name
os.makedirs(dst, exist_ok=True)
for f in ('patch.diff', 'demo.py'):
    shutil.copy(os.path.join(src, f), os.path.join(dst, f))
try:
    meta = json.load(open(os.path.join(src, 'meta.json')))
except Exception:
    meta = {}
conf = open(os.path.join(src, 'confirm.log')).read().strip().splitlines()[-1] if os.path.exists(os.path.join(src, 'confirm.log')) else ''
out = dict(property=name[:3], breaks=meta.get('summary', ''), needs=meta.get('needs', ''),
           files=meta.get('files', []), origin='independent sub-agent given only the property text',
           confirmed_by_me='scratch worktree of /repo HEAD + pristine build: ' + conf,
           ran=['tools/confirm_seed.sh (demo on clean tree: exit 0; pinned 55 tests with patch: all pass; demo with patch: exit 1)',
                'tools/try_seed.sh %s %s (patch applied to a scratch copy of /repo HEAD, bin/check run against it via VERIF_REPO, copy removed; the first-wave seeds were tried with git -C /repo apply ... git checkout -- . instead)' % (src, name[:3])],
           detected_by_check=det, detection_note=note)
json.dump(out, open(os.path.join(dst, 'meta.json'), 'w'), indent=1)
print('kept', dst)
