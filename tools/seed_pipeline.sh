#!/bin/bash
# usage: tools/seed_pipeline.sh <name> [check-id ...]   (seed in /tmp/seeded-out/<name>)
# confirm (clean demo passes, patched demo fails, 55 tests pass), then try the
# quick check(s) against a scratch copy with the patch.  Output: /tmp/seeded-out/<name>/pipeline.log
n="$1"; shift
d=/tmp/seeded-out/$n
ids="$*"; [ -z "$ids" ] && ids="${n:0:3}"
{
  /verif/tools/confirm_seed.sh "$d" | tail -2
  for id in $ids; do echo "--- try $id"; /verif/tools/try_seed.sh "$d" "$id" quick; done
} > "$d/pipeline.log" 2>&1
tail -25 "$d/pipeline.log"
