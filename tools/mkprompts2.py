"""Second-wave prompts: two more seeded changes per property (suffixes c, d),
told which mechanisms the first wave already used."""
import json, os, sys
props = {json.loads(l)['id']: json.loads(l) for l in open('/verif/properties.jsonl')}
T = open('/verif/tools/seed_prompt.txt').read()
for pid in sys.argv[1:]:
    p = props[pid]
    a = p['anchors']
    s = (T.replace('{id}', pid).replace('{title}', p['title']).replace('{statement}', p['statement'])
         .replace('{qtext}', p['quantifier']['text']).replace('{files}', ', '.join(a['files']))
         .replace('{mech}', '; '.join('%s (%s)' % (m['name'], m['where']) for m in a['mechanism'])))
    s = s.replace('for each change k in (a, b)', 'for each change k in (c, d)')
    s = s.replace('/tmp/seeded-out/%sa/ and /tmp/seeded-out/%sb/' % (pid, pid),
                  '/tmp/seeded-out/%sc/ and /tmp/seeded-out/%sd/' % (pid, pid))
    s = s.replace('revert (`git -C /tmp/wt-%s checkout -- .`) between a and b' % pid,
                  'revert (`git -C /tmp/wt-%s checkout -- .`) between c and d' % pid)
    s = s.replace('/tmp/wt-%s' % pid, '/tmp/wt2-%s' % pid)
    used = []
    for k in 'ab':
        mp = '/verif/seeded/%s%s/meta.json' % (pid, k)
        if os.path.exists(mp):
            m = json.load(open(mp))
            used.append('- %s (files: %s)' % (m.get('breaks', '')[:600], ', '.join(m.get('files', []))))
        elif os.path.exists('/tmp/seeded-out/%s%s/meta.json' % (pid, k)):
            m = json.load(open('/tmp/seeded-out/%s%s/meta.json' % (pid, k)))
            used.append('- %s (files: %s)' % (m.get('summary', '')[:600], ', '.join(m.get('files', []))))
    s += ('\n\nALREADY USED in an earlier round (do NOT repeat these or close variants; pick different '
          'mechanisms, files or code paths of the property; never use `git stash`):\n' + '\n'.join(used) + '\n')
    open('/tmp/seeded-out/prompt2-%s.txt' % pid, 'w').write(s)
    print(pid, len(s))
