#!/venv/bin/python
"""Regenerates /verif/MANIFEST.json from the table below and validates it."""
import json
import os
import subprocess
import sys

V = os.path.dirname(os.path.dirname(os.path.abspath(__file__)))

ENGINES = [
    dict(name='E1-schedule-explorer', path='vlib/sched.py',
         serves_properties=['C18'],
         kind_free_text='stateless preemption-bounded exploration of all '
         'interleavings of real Python threads code on shim Lock/RLock/'
         'Condition primitives under an owned scheduler, with state-hash '
         'pruning'),
    dict(name='E2-history-bfs', path='checks/c06_particle_array.py',
         serves_properties=['C01', 'C06', 'C07', 'C14', 'C16', 'C17'],
         kind_free_text='explicit-state breadth-first search over operation '
         'histories, each transition calling the real method on a real '
         'object; reference model comparison in every state (the BFS loop '
         'is instantiated per check: c06, c07, c14, c16, c17, c01 histories)'),
    dict(name='E3-deviation-bounded-environment',
         path='checks/c10_solver_loop.py',
         serves_properties=['C10'],
         kind_free_text='real Solver.solve run to completion under every '
         'sequence of environment answers with a bounded number of '
         'non-default answers'),
    dict(name='E4-bounded-exhaustive-enumeration',
         path='vlib/nnps_util.py',
         serves_properties=['C01', 'C05', 'C07', 'C08', 'C09', 'C11', 'C12',
                            'C13', 'C15', 'C17', 'C19', 'C20'],
         kind_free_text='complete enumeration of a stated finite input '
         'lattice / configuration product on the real code (lattice and '
         'multiset generators in vlib/nnps_util.py, per-check products in '
         'checks/)'),
    dict(name='E5-program-enumeration-vs-reference-interpreter',
         path='vlib/ref/sph_interp.py',
         serves_properties=['C02', 'C03', 'C04'],
         kind_free_text='bounded grammar of equation/group/integrator '
         'programs run through the real code generator + compiler and '
         'through a Python reference interpreter of the documented '
         'semantics; results compared bit for bit'),
]

# id -> (category, text, design_ref, level_note, technique, engine)
CHECKS = {}


def reg(pid, category, text, note, technique, engine):
    CHECKS[pid] = dict(category=category, text=text, note=note,
                       technique=technique, engine=engine)


reg('C18', 'model_checking',
    'All interleavings, at lock/condition/shared-container granularity, of '
    'the real CommandManager/Controller code for 13 single-interface and 13 '
    'two-interface (2 three-interface in thorough) driver programs (incl. two clients that meet at a barrier while the solver is paused, and a result collected while another task is outstanding), '
    'exhaustively up to 2 (quick) / 3 (thorough) preemptions, with deadlock, '
    'lost-wake-up, exactly-once, result-delivery and no-progress-while-paused '
    'oracles evaluated on every execution. A coverage statement, not a '
    'sample: the bugs this protocol can have (lock order, lost notify) have '
    'small witnesses.',
    'Trusted: the shim primitives (pinned against real threading by a '
    'conformance suite run on every invocation); atomicity of code between '
    'two scheduling points; determinism of thread bodies given their '
    'observations (state-hash pruning). Not covered: transports in '
    'solver_interfaces.py, more than 3 interface threads, more preemptions '
    'than the bound.',
    'stateless model checking of thread interleavings (iterative preemption '
    'bounding, CHESS style) on the real code', 'E1-schedule-explorer')


reg('C06', 'model_checking',
    'Explicit-state breadth-first search over all histories of <=3 (quick) / '
    '<=4 (thorough) operations from a 56-operation alphabet (add/remove/'
    'extract/append/extend/resize, add/remove property and constant, retag+'
    'align, set_tag, clone, shallow copy, re-declared defaults, ensure/copy properties, pickle...; every derived array is overwritten after it was compared) on real '
    'ParticleArray objects (two interacting arrays, every C type, strided '
    'properties), states deduplicated on the complete public implementation '
    'state, a record-list reference model compared after every transition. '
    'Bookkeeping bugs of this class (stale stride, wrong offset) have '
    'witnesses of 2-3 operations, so a depth-bounded exhaustive search is '
    'the right level.',
    'Trusted: the record-list model in checks/c06_particle_array.py and its '
    'reading of which argument combinations are documented as valid. '
    'Interpreter crashes inside an operation are caught per transition '
    '(crash-tolerant worker pool) and reported as violations. Not covered: '
    'histories deeper than the bound, GPU back-ends.',
    'explicit-state BFS over operation histories of the real object against '
    'a reference model', 'E2-history-bfs')


reg('C10', 'model_checking',
    'The real Solver.solve run to completion for the full product of time '
    'step x final time (commensurate, not, and 0.05 % of a step off a whole '
    'number of steps) x print frequency x damping length x max_steps '
    '(unlimited, 0, 1, 2) x '
    'every sorted subset (size<=3) of a per-(dt,tf) candidate set of '
    'requested output times (inside the first/last step, on a step time, '
    '+-1 ulp, accumulated vs exact multiples, clustered, at and beyond tf), '
    'plus, with adaptive stepping, every sequence of environment answers '
    'with <=2 (quick) / <=4 (thorough) non-default answers (deviation-'
    'bounded exploration). Every trace is judged by an oracle written from '
    'the statement. The landing logic is epsilon arithmetic on a handful of '
    'state variables: its bugs need a specific alignment of times, which '
    'the lattice contains by construction.',
    'Trusted: the oracle in checks/c10_solver_loop.py (readings recorded in '
    'DESIGN.md C10); stub integrator and recorder stand in for integration '
    'and file output. Values outside the lattice are not covered.',
    'deviation-bounded exhaustive exploration of the real solver loop '
    'against a trace oracle', 'E3-deviation-bounded-environment')


reg('C13', 'exploration',
    'Complete enumeration: every n x n matrix over {-1,0,1,2} for n<=3 '
    '(262 144 3x3 matrices, exact singularity by integer determinant) with '
    '1-3 right-hand sides, directly and through augmented_matrix; for '
    'n=4..6 structured families (row permutations of a diagonally dominant '
    'matrix, scaled permutation matrices, zero/tiny pivots in every '
    'position, pivot-search traps (tiny entry in a later row), row scalings, 1x1 systems of any magnitude, singular '
    'members); every helper against its definition; everything through the '
    'Python source AND a transpiled+compiled build of the same helpers; all '
    '15 625 symmetric 3x3 integer matrices x 3 magnitudes for the '
    'eigen-decomposition (orthonormality, AV=Vd, transform_diag_inv).',
    'Trusted: NumPy (cond, dot) and Fraction arithmetic as reference; '
    'residual bound 64 n cond eps |b|; nothing is claimed off the lattice; '
    'singular and numerically singular (cond>1e10) inputs are left open as '
    'the statement leaves them.',
    'bounded-exhaustive input enumeration against exact/NumPy reference',
    'E4-bounded-exhaustive-enumeration')

reg('C15', 'exploration',
    'Full product lattice of left/right gas states over 6-12 decades '
    '(quick: 5^4 x 5^2 x 3 gamma x 2 (niter,tol) = 93 750 states rotating '
    'with the seed; thorough: 7^4 x 7^2 x 5 x 3 = 1.76 M states), each of '
    'the 11 solvers evaluated on the state, its mirror image, through the '
    'dispatcher and (contact solvers) on Galilean-shifted and scaled '
    'copies; metamorphic oracles with tolerances conditioned on measured '
    'quantities (1e-12 input sensitivity, largest intermediate magnitude, '
    'extended-precision re-evaluation) so that cancellation is never '
    'reported while a swapped side or sign is.',
    'Trusted: the metamorphic relations themselves and an independent '
    'implementation of the exact pressure function; pure-Python execution '
    'of the solver source; nothing claimed between lattice points.',
    'bounded-exhaustive lattice enumeration with metamorphic oracles',
    'E4-bounded-exhaustive-enumeration')


reg('C19', 'exploration',
    'Complete enumeration of small collections of particle arrays: for one '
    'array every combination of presence of dt_cfl/dt_force/dt_visc/'
    'dt_adapt x 0-2 real particles x 6 value profiles x 3 smoothing '
    'lengths x optional ghost carrying extreme values x cfl x fixed_h; '
    'pairs (full x reduced menu, both orders) and triples; the real '
    'Integrator.compute_time_step and Solver._compute_timestep (fresh and '
    'in the middle of start-up damping) compared with the formula of the '
    'statement evaluated independently.',
    'Trusted: the independent evaluation of the documented formula; '
    'h.minimum refreshed as NNPS.update_domain does; values outside the '
    'small lattice are not covered.',
    'bounded-exhaustive input enumeration against an independent formula',
    'E4-bounded-exhaustive-enumeration')


reg('C08', 'exploration',
    'Every kernel class x accepted dimension x 13 (thorough 29) smoothing '
    'lengths over 12 (18) decades x a q lattice containing 0, every piece boundary and the '
    'support edge +-1 ulp and +-2^-40, 100 (quick) / 1000 (thorough) points '
    'per piece and points beyond the support x up to 14 directions: '
    'compact support (exact zero), sign and monotonicity, gradient = '
    'dwdq/h x/r and zero at r=0, dwdq and gradient_h against Richardson '
    'finite differences of W, continuity across boundaries, normalisation '
    'by per-piece Gauss-Legendre quadrature (Gaussian family against the '
    'analytic truncated value of the documented formula), scaling law, '
    'and bit/ulp agreement of the compiled twins requested through '
    'get_compiled_kernel in two orders, down to h = 1e-6 (thorough 1e-9).',
    'Trusted: finite-difference and quadrature references; nothing is '
    'claimed between lattice points (the lattice enters every branch on '
    'both sides of every boundary).',
    'bounded-exhaustive numeric lattice enumeration with analytic/FD '
    'oracles', 'E4-bounded-exhaustive-enumeration')


reg('C20', 'exploration',
    'Finite product, completely enumerated: every shipped Equation '
    'subclass (286 of 288 instantiated) x every property it needs '
    'explicitly or through the closure of precomputed pair symbols x '
    'removal from the destination / from one of two sources, in flat '
    'lists, groups and sub-groups; destination that is its own source; '
    'misspelt destination and source names; every shipped stepper (built '
    'with a shipped integrator of its stage count) and ten generated '
    'steppers of 1-5 stages x every argument x first / later array; one generated user equation per '
    'precomputed symbol. The real AccelerationEval / SPHCompiler front end '
    'is driven up to (a patched) compile(): reaching it is the violation. '
    'Nothing is compiled or executed, which is the point of the property.',
    'Trusted: the independent table of what each precomputed symbol reads '
    '(vlib/eqtable.py, from the documentation); classes that cannot be '
    'instantiated from the generic value table are listed in the evidence '
    'as not covered.',
    'exhaustive enumeration of (program, removal site) pairs on the real '
    'set-up path', 'E4-bounded-exhaustive-enumeration')


reg('C11', 'exploration',
    'Complete product {npz,hdf5} x compress x detailed_output x only_real '
    'over an enumerated family of particle-array lists (0/1/3 particles, '
    'five tag patterns, four output-list shapes, constants of length 0, 1, '
    '4 and 200 or none; numeric, boolean and string solver data; every C type x stride {1,3} x default {0,3}; two arrays '
    'with different property sets and constants; empty arrays; no arrays), '
    'plus version-1 npz fixtures written in the documented v1 layout; the '
    'real dump()/load() pair is run on every case and name, per-property '
    'C type / stride / default, constants, output list, stored values (as '
    'per-particle record multisets) and solver data are compared.',
    'Trusted: the comparison code; an empty output list is taken as '
    'equivalent to all properties. The family is finite and small by '
    'design: the writers/readers branch on shape (type, stride, stored or '
    'not, empty), not on values.',
    'bounded-exhaustive enumeration of shapes x options, round-trip oracle',
    'E4-bounded-exhaustive-enumeration')


reg('C07', 'model_checking',
    'Explicit enumeration on the real DomainManager: cubic boxes of two widths and a 2 x 1.25 x 1.5 box '
    '(the narrow one puts a particle into both ghost layers), every '
    'assignment of {periodic, mirror, none} to the axes in 1-3 D, n_layers '
    '{1,2}, 1-3 particles on a lattice containing points outside the box, '
    'on the faces, inside the layer, exactly at the threshold and beyond, '
    'one or two arrays, copied-property subsets (list and dict form), '
    'unequal h; move-then-update histories of 3 rounds. After every update '
    'the ghost multiset (positions, copied properties, reversed normal '
    'velocity) is compared with an independently constructed image set, '
    'the update is repeated to show idempotence, and neighbour queries are '
    'checked against all interacting periodic/mirror images.',
    'Trusted: the independent image construction (product of per-axis '
    'choices; threshold-exact sources optional); LinkedListNNPS for the '
    'neighbour leg. Not covered: more than 3 particles per configuration, '
    'GPU domain manager.',
    'bounded-exhaustive placement enumeration + short update histories '
    'against a reference model', 'E2-history-bfs')


reg('C16', 'model_checking',
    'Breadth-first search over move/update histories (depth 2 quick, 4 '
    'thorough) on real InletBase/OutletBase objects with their compiled '
    'IOEvaluate evaluators: 14 displacement patterns per round (whole '
    'arrays, single particles; forward, backward, more than a zone length) '
    'followed by inlet.update and outlet.update with the stage active or '
    'not; 4 initial populations x 7 flow directions in 1-3 D (including '
    'normals with three different components) x props_to_copy none/subset '
    'x with/without ghost inlet / with a ghost-tagged bystander particle '
    'in every array. After every transition all three arrays '
    'are compared, as multisets of whole particle records, with a '
    'bookkeeping reference model, and fluid count = initial + entered - '
    'left is asserted. In addition each of the five shipped families is '
    'driven through its SimpleInletOutlet manager: a 2-D channel with one '
    'inlet and two outlets, the update objects (the family\'s own Inlet / '
    'Outlet classes) taken from get_inlet_outlet(), every history of <=2 '
    '(thorough 4) displacements out of 6 compared with a bookkeeping model.',
    'Trusted: the bookkeeping models; states with a particle exactly on an '
    'interface plane are not generated (either outcome allowed). The '
    'equations and steppers the managers add are not part of this check.',
    'explicit-state BFS over operation histories of the real objects '
    'against a reference model', 'E2-history-bfs')


reg('C17', 'model_checking',
    'Every neighbour algorithm (the seven documented ones must support '
    're-ordering, the others may raise NotImplementedError) x cache on/off '
    'on all placements of <=4 particles on small 1-3 D lattices x one/two '
    'arrays x non-Local tails {0,1,2} (Remote and Ghost tags) x two h patterns, plus larger blocks with '
    'arrays of different sizes; arrays carry every C type and stride-2/3 '
    'properties (created before or after the scalar ones). Histories of '
    'reorder / update / move / grow / shrink / add properties on one long-lived NNPS object: the index list '
    'must be a permutation, the multiset of whole particle records must be '
    'unchanged, Local particles must stay ahead of ghosts, and after the '
    'next update the object must answer like a freshly built one.',
    'Trusted: record comparison; the differential neighbour oracle (fresh '
    'object of the same class). Configurations on which an algorithm '
    'cannot even be constructed (C01 findings) are listed as not exercised.',
    'bounded-exhaustive placement enumeration + operation histories on the '
    'real objects', 'E2-history-bfs')


reg('C01', 'model_checking',
    'Every CPU neighbour algorithm (12 classes, 67 knob variants quick / '
    'full knob product thorough: H, levels, leaf size, tiny hash tables, '
    'asymmetric, sort_gids, cache, fixed_h) on ALL multisets of <=k '
    'particles of a half-cell lattice (points on cell faces, pairs exactly '
    'at the cut-off, coincident, collinear/coplanar, empty and '
    'single-particle arrays; 1-D 9 points k<=4, 2-D 4x4 k<=3 and 3x3 k<=4, '
    '3-D 3x3x3 k<=3; quick takes one residue class of the largest k) x '
    'smoothing-length patterns (h, 3h, h/2; thorough h/8 and 50h) x 4 '
    'array splits x affine images (far from the origin, negative, 2^-10, '
    '2^10; quick: every fourth configuration through one image, the four '
    'taking turns), all (dst,src) pairs, cache filled lazily and by '
    'find_all_neighbors; all length-2 update histories (move / set h / '
    'append / remove, then update) on one long-lived object; cache filled '
    'with 2-16 threads. Oracle: NumPy brute force with a rounding band at '
    'the cut-off. Each (algorithm, chunk) runs in its own worker so that '
    'native crashes are attributed, recorded as violations and skipped.',
    'Trusted: the brute-force oracle; documented protocol set_context() '
    'before queries. OpenMP interleavings are not enumerated (thread counts '
    'are). 15 recorded findings (ExtendedZOrder / StratifiedSFC cross-array '
    'search, StratifiedSFC and octree crashes on empty arrays, octree '
    'recursion on coincident points, ExtendedZOrder thread crashes) are '
    'listed in known_findings.json.',
    'bounded-exhaustive small-scope enumeration of configurations and '
    'update histories on the real classes', 'E2-history-bfs')



reg('C02', 'translation_validation',
    'Program enumeration against a reference interpreter: (a) every shipped '
    'Equation subclass (288 discovered, each instantiated from a generic '
    'value table) and (b) a bounded grammar of user-style equations - each '
    'of the 21 precomputed pair symbols (and pairs of symbols) x every '
    'kernel x dims 1-3 x three destination/source wirings with every '
    'per-pair value stored in its own slot; every ordered pair of terminals '
    '(typed and strided properties, constants, scalar attributes, t, dt, '
    'XIJ, literals) x {+,-,*,/} in each of five hooks; feature templates '
    '(declared ints and matrices, loops, branches, helper functions, '
    'attributes changed after construction, private (underscore) attributes, typed writes, reduce, libm, '
    'SPH_KERNEL in loop_all) and all ordered 2-3 equation groups of '
    'non-commuting equations - is generated, compiled by the real tool '
    'chain (on decoy arrays that are then replaced through '
    'update_particle_arrays) and executed at t=0.3, dt=0.07; the same Python methods are executed by '
    'vlib/ref/sph_interp.py (independent precomputed-symbol table, Python '
    'kernel classes, bounds-checked array views) on the same arrays and '
    'neighbour lists. Every property and constant is compared: bit '
    'equality for arithmetic-only code, 1e-12 relative where libm or a '
    'kernel is involved. This is per-program validation of the '
    'translation, exhaustive over the stated grammar.',
    'Trusted: the reference interpreter as the reading of the documented '
    'semantics; value tables used to instantiate shipped classes. Shipped '
    'classes that cannot be instantiated generically or whose methods '
    'cannot run in the bounds-checked pure-Python reference are listed '
    'under not_covered in the evidence. OpenMP off; GPU back-ends not '
    'covered. Quick tier: generated C++ compiled with -O0, thorough with '
    'compyle\'s -O3. int/int division and unsigned arithmetic are outside the '
    'documented subset and not generated.',
    'bounded program enumeration, real code generator + compiler vs '
    'reference interpreter',
    'E5-program-enumeration-vs-reference-interpreter')


reg('C03', 'model_checking',
    'A bounded grammar of group trees is enumerated and every program is '
    'executed twice (t=0, t=1) by the generated+compiled evaluator and by '
    'the reference interpreter; particle data and the log of Python '
    'callbacks (pre, post, condition, py_initialize, reduce) must be '
    'identical. Grammar: all 128 subsets of the seven hooks in one group '
    '(non-commutative integer trace arithmetic, so any re-ordering or '
    'extra/missing call changes the result); every single (thorough: every '
    'pair of) flag deviation(s) - real, index ranges as numbers and as '
    'constant names incl. empty ranges, iterate x (min,max) x convergence '
    'after 1, 2, 4, never, condition true/false/time dependent, pre, post, '
    'update_nnps - of a three-equation group followed by a '
    'neighbour-dependent probe group; two-group programs over all '
    'destination/source wirings of three arrays; every deviated group placed between plain groups that use the same arrays and destinations; groups and sub-groups sharing an explicit name; equation classes that inherit every hook and converged(); destinations that read what an earlier destination of the group wrote; equations that grow h before update_nnps; the second evaluation runs on the same particles with other tags (other real counts); sub-groups with their own '
    'flags inside eight kinds of parents (plain, pre+post, condition, '
    'update_nnps, iterated, and combinations of those).',
    'Trusted: the reference interpreter (the model of the documented '
    'order); programs are packed 24 per generated module with a boundary '
    'group that snapshots and resets the arrays. A generated module that '
    'does not compile is bisected to the offending program and reported. '
    'OpenMP off (C05 covers thread counts). Quick tier: generated C++ '
    'compiled with -O0, thorough with -O3. An exception raised by the '
    'generated code is a violation.',
    'bounded program enumeration, real code generator + compiler vs '
    'reference interpreter, with callback-trace comparison',
    'E5-program-enumeration-vs-reference-interpreter')


reg('C04', 'model_checking',
    'Every shipped scheme (17; integrator + steppers + equations as '
    'configured by the scheme, 1-3 D, with/without solids) is advanced by '
    'initial_acceleration and two steps of different size through the '
    'compiled integrator and through vlib/ref/integrator_mirror.py, which '
    'calls the integrator class\'s own Python one_timestep on a mirror '
    'object whose stage/compute_accelerations/update_domain/do_post_stage '
    'methods implement the documented meaning (stepper methods applied to '
    'real particles only, accelerations by the reference interpreter). In '
    'addition a grammar of generated integrators (1-5 stages x '
    'initialize/no initialize x 4 acceleration placement patterns incl. '
    'update_nnps=False and second equation set x update_domain) x '
    'stepper wirings (different classes, same class with different '
    'attributes, py_stage hooks incl. one that adds particles, stages that exist only as a hook, inherited stages, arrays '
    'without stepper; plus a mirror instead of a periodic domain with '
    'fixed_h declared, and an integrator class re-defined under the same '
    'module and class name in one process) is run for three '
    'steps starting at t=0.5 in a periodic domain with non-commutative '
    'trace steppers; particle state after every step and the post-stage '
    'callback log must agree bit for bit.',
    'Trusted: the mirror and the reference interpreter. Scheme cases the '
    'generic particle block cannot initialise physically (list in '
    'checks/c12_schemes.py run_not_judged) are listed as skipped. OpenMP '
    'off.',
    'bounded program enumeration, compiled integrator vs literal execution '
    'of one_timestep',
    'E5-program-enumeration-vs-reference-interpreter')


reg('C05', 'exploration',
    'Five tiny Applications (free surface with a 1.8x smoothing-length '
    'bump, wall bounded with two arrays, doubly periodic with two fluid '
    'arrays, two blocks that start out of range and collide, a block '
    'stepped by GTVFIntegrator on a reduced option set; every array '
    'carries a strided identity property) are run through Application.run(argv) for six steps under '
    'every option vector at distance <=1 from the default, the complete '
    'nnps x cache and nnps x sort-gids planes, threads {1,2,3,4,8,16} x '
    'sort/cache, every nnps x {2,16} threads, x re-ordering frequency, '
    '(thorough: nnps x cache x sort x reorder x {serial,2,3,16 threads}); '
    'final particle state matched by a particle identity property: <=1e-9 '
    'relative to the default configuration, bit identical among all '
    'sort-gids runs without re-ordering, repeated runs bit reproducible. '
    'Enumeration of configurations is complete within the stated product; '
    'OpenMP interleavings inside a run are not enumerated, hence '
    'exploration.',
    'Trusted: identity matching. Combinations the front end refuses with '
    'NotImplementedError (re-ordering with algorithms that do not define a '
    'spatial order) are listed as refused. Known findings: sfc and '
    'strat_sfc on problems with more than one array (same root cause as '
    'the C01 z-order findings).',
    'bounded-exhaustive enumeration of front-end configurations with a '
    'differential oracle', 'E4-bounded-exhaustive-enumeration')


reg('C09', 'exploration',
    'Each pair-symmetric momentum equation shipped (16 classes, with the '
    'variants of their flags) x every kernel x dims 1-3 x one array / two '
    'mutually interacting arrays x enumerated small placements (incl. '
    'pairs only one of whose smoothing lengths reaches, coincident pairs '
    'excluded) x per-particle value patterns (pressures of both signs, '
    'mixed masses and h) x the 12 neighbour algorithm classes taking turns (16 variants incl. multi-level and tiny hash tables), evaluated by the real '
    'compiled evaluator: sum m a = 0 and sum x cross m a = 0 to rounding '
    'relative to sum |m a|.',
    'Trusted: which equations are documented as pair symmetric (table in '
    'checks/c09_conservation.py). Equations with external forces or '
    'boundaries are excluded by construction.',
    'bounded-exhaustive enumeration of small particle systems on the real '
    'compiled equations', 'E4-bounded-exhaustive-enumeration')


reg('C12', 'exploration',
    'Tier A: for all 17 shipped schemes (and SchemeChooser over four of '
    'them, every default x every choice) the product of documented option '
    'values x dim x with/without solid arrays x clean on/off: '
    'setup_properties + get_equations + configure_solver, then every '
    'array argument of every equation hook, stepper method and precomputed '
    'symbol must name an existing property or constant of the right array '
    'with an integral C type where the equation reads it into a declared '
    'int or uses it as an index, and with the stride the sources declare it '
    'with (static check), and for configurations within '
    'distance 1 of the defaults the code is generated and compiled. Tier '
    'B: the default and every distance-1 deviation (incl. required numeric '
    'arguments nu/pb/alpha set to zero / non-zero) is compiled and run for '
    'two steps (quick also every pair of values of two enumerated options); '
    'all values must stay finite.',
    'Trusted: generic particle block and initial values for scheme '
    'specific properties (checks/c12_schemes.py). Scheme cases the generic '
    'block cannot initialise physically are compiled but their two-step '
    'run is not judged (run_not_judged). 3 recorded findings (GTVF with '
    'solids, PSPH/TSPH with has_ghosts).',
    'bounded-exhaustive enumeration of scheme configurations on the real '
    'set-up and code generation path', 'E4-bounded-exhaustive-enumeration')


reg('C14', 'model_checking',
    'Breadth-first search over histories of Interpolator interface calls '
    '(interpolate of several properties, set_interpolation_points, '
    'update, update_particle_arrays with fresh arrays, move sources, grow the smoothing lengths in place, overwrite the interpolated property in place, targets given as Fortran-ordered 2-D arrays; depth '
    '2 quick / 4 thorough) for 5 methods x 9 kernel/dim pairs x one/two '
    'source arrays x non-periodic/periodic domain; after every call the '
    'values (and for order1 the gradient) at every target are compared '
    'with a direct NumPy evaluation of the defining sums over all source '
    'particles incl. periodic images; constant and (order1) linear fields '
    'must be reproduced; the shepard and sph equations are also driven through SPHEvaluator (update_particle_arrays / update / evaluate histories); targets also as integer-typed coordinate arrays.',
    'Trusted: the NumPy reference sums; targets with a source exactly at '
    'the cut-off and ill-conditioned moment matrices (cond>1e6) are left '
    'open.',
    'explicit-state BFS over operation histories of the real object '
    'against a reference model', 'E2-history-bfs')


def main():
    props = [json.loads(l) for l in open(os.path.join(V, 'properties.jsonl'))]
    checks = []
    na = []
    pending = json.load(open(os.path.join(V, 'tools', 'pending.json')))
    for p in props:
        pid = p['id']
        if pid in CHECKS and pid not in pending:
            c = CHECKS[pid]
            checks.append(dict(
                property_id=pid,
                quick_cmd='bin/check %s --tier quick' % pid,
                thorough_cmd='bin/check %s --tier thorough' % pid,
                evidence_file='/verif/evidence/%s.json' % pid,
                replay_cmd_template='bin/check %s --replay {path}' % pid,
                engine=c['engine'],
                level_claimed=dict(category=c['category'], text=c['text'],
                                   design_ref='DESIGN.md section 4, ' + pid),
                level_note=c['note'],
                technique=c['technique']))
        else:
            na.append(dict(property_id=pid,
                           reason=pending.get(pid, 'check not built yet; '
                                              'design in DESIGN.md section 4')))
    man = dict(
        version=1,
        setup_cmd='bin/setup',
        hooks=dict(
            guard='PYSPH_VERIF',
            enable='no source hooks: checks build a checksum-synced copy of '
                   '/repo under /var/tmp/pysph-verif and drive public APIs; '
                   'the controller is bound to shim primitives by replacing '
                   'module attributes from the harness',
            baseline_off_cmd='cd /repo && /venv/bin/python -m pytest -ra -q '
                             '-p no:cacheprovider --timeout=900 '
                             '--continue-on-collection-errors',
            source_commits=[],
            add_only=True),
        engines=ENGINES,
        checks=checks,
        not_applicable=na,
        notes='Family: model checking / bounded exhaustive exploration. '
              'fix: commits in /repo are listed in known_findings.json '
              '(status fixed). Quick tier: run-time generated modules are '
              'compiled with -O0; thorough tier of the checks that compile '
              'generated code: wide enumeration at -O0, then the quick '
              'enumeration again at compyle\'s -O3 (DESIGN.md section 8.6). '
              '190 independently seeded property-breaking changes under '
              'seeded/ (189 detected, table in DESIGN.md section 8.5).')
    out = os.path.join(V, 'MANIFEST.json')
    with open(out, 'w') as f:
        json.dump(man, f, indent=1)
        f.write('\n')
    r = subprocess.run(['python3-vt', '-c', '''
import json, jsonschema, sys
jsonschema.validate(json.load(open("%s")), json.load(open("/root/.vp/MANIFEST.schema.json")))
print("MANIFEST valid")
''' % out])
    sys.exit(r.returncode)


if __name__ == '__main__':
    main()
