#!/bin/sh
# usage: tools/run_seeds.sh "<seeds>" [ids...]  - quick checks with other seeds, evidence not written
seeds="$1"; shift
ids="$*"; [ -z "$ids" ] && ids="C08 C11 C19 C10 C07 C06 C15 C13 C20 C16 C17 C14 C18 C09 C04 C01 C03 C05 C02 C12"
cd /verif
for sd in $seeds; do for id in $ids; do
  VERIF_SEED=$sd VERIF_NOEVIDENCE=1 bin/check $id --tier quick > /tmp/run_seed_${sd}_$id.log 2>&1; rc=$?
  echo "seed=$sd $id rc=$rc $(grep -E 'tier=' /tmp/run_seed_${sd}_$id.log | sed 's/.*wall=/wall=/')"
  grep -E "^VIOLATION" /tmp/run_seed_${sd}_$id.log | head -5
done; done
